"""Development aid: run the committed checks against seeded changes without touching /repo.

  python tools/mutants.py [--pids C01,C17] [--glob '/tmp/mut/C*/out/m*.diff'] [--own]

Each diff is applied to a scratch copy of /repo/ixai under $TMPDIR (removed afterwards) and the
checks are run with IXAI_REPO pointing at the copy.  --own: only the check of the property the
change was written for.  Prints one line per change: which checks report VIOLATION / error.
"""
import argparse, glob, json, os, shutil, subprocess, sys, tempfile
from concurrent.futures import ThreadPoolExecutor

VERIF = os.path.dirname(os.path.dirname(os.path.abspath(__file__)))


def available():
    return sorted(f[:-3].upper() for f in os.listdir(os.path.join(VERIF, "sa", "rules"))
                  if f.startswith("c") and f[1:3].isdigit() and f.endswith(".py"))


def run_one(diff, pids):
    d = tempfile.mkdtemp(prefix="ixai_mut_")
    try:
        shutil.copytree("/repo/ixai", os.path.join(d, "ixai"), ignore=shutil.ignore_patterns("__pycache__"))
        r = subprocess.run(["patch", "-p1", "-s", "-i", diff], cwd=d, capture_output=True, text=True)
        if r.returncode != 0:
            return diff, {"patch": "FAILED " + r.stdout[:200]}
        out = {}
        for pid in pids:
            env = dict(os.environ, IXAI_REPO=d, IXAI_VERIF_NO_EVIDENCE="1")
            r = subprocess.run(["/venv/bin/python", "-m", "sa.check", pid], cwd=VERIF, env=env,
                               capture_output=True, text=True)
            first = next((l for l in r.stdout.splitlines() if l.startswith("  ") or l.startswith("ANALYSIS")), "")
            out[pid] = (r.returncode, first.strip()[:230])
        return diff, out
    finally:
        shutil.rmtree(d, ignore_errors=True)


def main():
    ap = argparse.ArgumentParser()
    ap.add_argument("--pids")
    ap.add_argument("--glob", default="/tmp/mut/C*/out/m*.diff")
    ap.add_argument("--own", action="store_true")
    ap.add_argument("-v", action="store_true")
    ap.add_argument("--json")
    a = ap.parse_args()
    avail = available()
    pids = a.pids.split(",") if a.pids else avail
    diffs = sorted(d for g in a.glob.split(',') for d in glob.glob(g))
    jobs = []
    for d in diffs:
        own = None
        for part in d.split("/"):
            if len(part) == 3 and part[0] == "C" and part[1:].isdigit():
                own = part
        ps = [own] if a.own and own in avail else ([] if a.own else pids)
        jobs.append((d, ps, own))
    with ThreadPoolExecutor(8) as ex:
        results = list(ex.map(lambda j: run_one(j[0], j[1]), jobs))
    caught = 0
    for (d, ps, own), (_, out) in zip(jobs, results):
        hits = [p for p, v in out.items() if isinstance(v, tuple) and v[0] == 1]
        errs = [p for p, v in out.items() if isinstance(v, tuple) and v[0] == 2]
        tag = "CAUGHT" if hits else ("ERROR " if errs else "missed")
        caught += bool(hits)
        print(f"{tag} {d.replace('/tmp/mut/','')}: violation={hits} error={errs}" + (f" {out}" if "patch" in out else ""))
        if a.v:
            for p in hits + errs:
                print(f"      {p}: {out[p][1]}")
    print(f"{caught}/{len(jobs)} changes reported by at least one check")
    if a.json:
        json.dump({d: {p: v[0] for p, v in out.items() if isinstance(v, tuple)} for (d, ps, own), (_, out) in zip(jobs, results)}, open(a.json, "w"), indent=1)


if __name__ == "__main__":
    main()
