"""Refresh /verif/seeded/*/meta.json from a matrix written by `tools/mutants.py --json` and regenerate the table of
DESIGN.md section 12 (one row per seeded change: what it does, which checks report it).

  python tools/refresh_seeded.py /tmp/seeded_matrix.json
"""
import json, os, re, sys

VERIF = os.path.dirname(os.path.dirname(os.path.abspath(__file__)))


def key(name):
    m = re.match(r"(C\d+)-(?:r(\d))?m(\d)", name)
    return (m.group(1), int(m.group(2) or 1), int(m.group(3)))


def main():
    matrix = json.load(open(sys.argv[1]))
    by_id = {}
    for diff, res in matrix.items():
        by_id[os.path.basename(os.path.dirname(diff))] = res
    rows, own, anyv, und, silent = [], 0, 0, [], []
    for name in sorted(os.listdir(os.path.join(VERIF, "seeded")), key=key):
        mp = os.path.join(VERIF, "seeded", name, "meta.json")
        meta = json.load(open(mp))
        res = by_id.get(name)
        if res is None:
            raise SystemExit(f"no matrix row for {name}")
        viol = sorted(p for p, v in res.items() if v == 1)
        cd = sorted(p for p, v in res.items() if v == 2)
        meta["checks_reporting_violation"], meta["checks_answering_cannot_decide"] = viol, cd
        json.dump(meta, open(mp, "w"), indent=1)
        anyv += bool(viol)
        own += meta["breaks_property"] in viol
        if not viol:
            (und if cd else silent).append(name)
        summ = " ".join(meta.get("summary", "").split())
        summ = (summ[:140] + "...") if len(summ) > 140 else summ
        rep = ", ".join(viol) if viol else ("(not decided: " + ", ".join(cd) + ")" if cd else "—")
        rows.append(f"| {name} | {summ.replace('|', '/')} | {rep} |")
    table = "| seeded change | what it does | reported by |\n|---|---|---|\n" + "\n".join(rows) + "\n"
    dp = os.path.join(VERIF, "DESIGN.md")
    s = open(dp).read()
    start = s.index("| seeded change | what it does | reported by |")
    end = s.index("\n---", start)
    s = s[:start] + table + s[end:]
    open(dp, "w").write(s)
    print(f"{len(rows)} changes: {anyv} reported, {own} by their own check; not decided {und}; silent {silent}")


if __name__ == "__main__":
    main()
