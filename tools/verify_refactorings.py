"""Confirm behaviour-preserving changes independently: the equivalence digest is identical on the clean tree and
with the change, and the unedited suite passes with the change. Scratch copies under $TMPDIR, removed afterwards.
  python tools/verify_refactorings.py '<glob of r*.diff>' [--jobs 6] [--out file.json]
"""
import argparse, glob, json, os, shutil, subprocess, tempfile
from concurrent.futures import ThreadPoolExecutor
PY = "/venv/bin/python"


def run(cmd, cwd, timeout=900):
    try:
        r = subprocess.run(cmd, cwd=cwd, capture_output=True, text=True, timeout=timeout)
        return r.returncode, (r.stdout + r.stderr)
    except subprocess.TimeoutExpired:
        return 124, "timeout"


def digest(out):
    for l in out.splitlines():
        if l.startswith("DIGEST"):
            return l.split()[1]
    return None


def verify(diff):
    eq = diff.replace(".diff", "_equiv.py")
    if os.path.basename(diff) == "patch.diff":
        eq = os.path.join(os.path.dirname(diff), "equiv.py")
    d = tempfile.mkdtemp(prefix="ixai_ref_")
    res = {"diff": diff}
    try:
        subprocess.run("git -C /repo archive HEAD | tar -x -C " + d, shell=True, check=True)
        _, o0 = run([PY, eq], d, 400)
        rc, _ = run(["patch", "-p1", "-s", "-i", diff], d)
        _, o1 = run([PY, eq], d, 400)
        rct, outt = run([PY, "-m", "pytest", "-q", "-p", "no:cacheprovider", "--timeout=900", "-x"], d, 1200)
        tail = outt.strip().splitlines()[-1] if outt.strip() else ""
        res.update({"digest_clean": digest(o0), "digest_changed": digest(o1), "patch_applies": rc == 0, "tests_tail": tail})
        res["confirmed"] = rc == 0 and digest(o0) is not None and digest(o0) == digest(o1) and "38 passed" in tail
    finally:
        shutil.rmtree(d, ignore_errors=True)
    return res


if __name__ == "__main__":
    ap = argparse.ArgumentParser()
    ap.add_argument("glob")
    ap.add_argument("--jobs", type=int, default=6)
    ap.add_argument("--out", default="/tmp/ref_verify.json")
    a = ap.parse_args()
    diffs = sorted(d for g in a.glob.split(",") for d in glob.glob(g))
    with ThreadPoolExecutor(a.jobs) as ex:
        results = list(ex.map(verify, diffs))
    json.dump(results, open(a.out, "w"), indent=1)
    for r in results:
        print("OK  " if r.get("confirmed") else "FAIL", r["diff"], (r.get("digest_clean") or "")[:10], (r.get("digest_changed") or "")[:10], r.get("tests_tail"))
    print(sum(1 for r in results if r.get("confirmed")), "/", len(results), "confirmed")
