"""Confirm seeded changes independently: demo passes on the clean tree, fails with the change, and the
unedited test suite still passes with the change. Works in scratch copies under $TMPDIR (removed afterwards).

  python tools/verify_seeded.py <glob of .diff files> [--jobs 6] [--out results.json]
"""
import argparse, glob, json, os, shutil, subprocess, sys, tempfile
from concurrent.futures import ThreadPoolExecutor

PY = "/venv/bin/python"


def run(cmd, cwd, timeout=900):
    try:
        r = subprocess.run(cmd, cwd=cwd, capture_output=True, text=True, timeout=timeout)
        return r.returncode, (r.stdout + r.stderr)[-1500:]
    except subprocess.TimeoutExpired:
        return 124, "timeout"


def verify(diff):
    demo = diff.replace(".diff", "_demo.py")
    if os.path.basename(diff) == "patch.diff":
        demo = os.path.join(os.path.dirname(diff), "demo.py")
    d = tempfile.mkdtemp(prefix="ixai_seed_")
    res = {"diff": diff}
    try:
        subprocess.run("git -C /repo archive HEAD | tar -x -C " + d, shell=True, check=True)
        rc0, out0 = run([PY, demo], d, 300)
        res["clean_demo_exit"] = rc0
        rc, out = run(["git", "apply", "--unsafe-paths", "--directory", ".", diff], d) if False else run(["patch", "-p1", "-s", "-i", diff], d)
        res["patch_applies"] = rc == 0
        rc1, out1 = run([PY, demo], d, 300)
        res["mutant_demo_exit"] = rc1
        res["mutant_demo_tail"] = out1[-300:]
        rct, outt = run([PY, "-m", "pytest", "-q", "-p", "no:cacheprovider", "--timeout=900", "-x"], d, 1200)
        res["tests_exit"] = rct
        res["tests_tail"] = outt.strip().splitlines()[-1] if outt.strip() else ""
        res["confirmed"] = rc0 == 0 and rc == 0 and rc1 == 1 and rct == 0 and "38 passed" in res["tests_tail"]
    finally:
        shutil.rmtree(d, ignore_errors=True)
    return res


if __name__ == "__main__":
    ap = argparse.ArgumentParser()
    ap.add_argument("glob")
    ap.add_argument("--jobs", type=int, default=6)
    ap.add_argument("--out", default="/tmp/seed_verify.json")
    a = ap.parse_args()
    diffs = sorted(d for g in a.glob.split(",") for d in glob.glob(g))
    with ThreadPoolExecutor(a.jobs) as ex:
        results = list(ex.map(verify, diffs))
    json.dump(results, open(a.out, "w"), indent=1)
    for r in results:
        print("OK  " if r.get("confirmed") else "FAIL", r["diff"], r.get("clean_demo_exit"), r.get("mutant_demo_exit"), r.get("tests_tail"))
    print(sum(1 for r in results if r.get("confirmed")), "/", len(results), "confirmed")
