"""Cross corpus: a behaviour-preserving change followed by a breaking change of the same property.

For every property, each refactoring diff R (committed corpus, or extra globs) is applied in memory, then each
seeded breaking diff M of that property on top of it (pairs whose hunks no longer apply are skipped).  The
property's own check must still report the composed variant: a refactoring must not make the check blind.
  python tools/cross.py [--ref '<glob>[,<glob>]'] [--pids C01,C02] [--jobs 16] [-v]
Exit 0 if every composable pair is reported (exit 1 lists the pairs that pass silently).
"""
import argparse
import glob
import json
import os
import re
import sys
from concurrent.futures import ProcessPoolExecutor

sys.path.insert(0, os.path.dirname(os.path.dirname(os.path.abspath(__file__))))
os.environ.setdefault("IXAI_VERIF_NO_EVIDENCE", "1")
from sa import ir, udiff                     # noqa: E402
from sa.check import evaluate                # noqa: E402

VERIF = os.path.dirname(os.path.dirname(os.path.abspath(__file__)))


def pid_of(path):
    m = re.search(r"(C\d\d)", path)
    return m.group(1) if m else None


def _job(job):
    pid, rname, mname, overrides, base = job
    try:
        run, err = evaluate(pid, sources=base, overrides=overrides)
    except Exception as e:      # analyser crash
        return pid, rname, mname, "crash", f"{type(e).__name__}: {e}"
    if err:
        return pid, rname, mname, "error", err
    return pid, rname, mname, ("violation" if run.findings else "pass"), ""


def main():
    ap = argparse.ArgumentParser()
    ap.add_argument("--ref", default=os.path.join(VERIF, "refactorings", "*", "patch.diff"))
    ap.add_argument("--mut", default=os.path.join(VERIF, "seeded", "*", "patch.diff"))
    ap.add_argument("--pids", default="")
    ap.add_argument("--jobs", type=int, default=16)
    ap.add_argument("-v", action="store_true")
    a = ap.parse_args()
    refs = sorted(d for g in a.ref.split(",") for d in glob.glob(g))
    muts = sorted(d for g in a.mut.split(",") for d in glob.glob(g))
    want = set(a.pids.split(",")) if a.pids else None
    base = ir.read_sources()
    jobs = []
    skipped = 0
    for r in refs:
        pid = pid_of(r)
        if want and pid not in want:
            continue
        o1 = udiff.apply(base, open(r).read())
        if o1 is None:
            continue
        src1 = dict(base)
        src1.update(o1)
        for m in muts:
            if pid_of(m) != pid:
                continue
            # the breaking change alone must be reported by this property's check (some are caught by a sibling only)
            meta = os.path.join(os.path.dirname(m), "meta.json")
            if os.path.exists(meta):
                mj = json.load(open(meta))
                if pid not in mj.get("checks_reporting_violation", [pid]):
                    continue
            o2 = udiff.apply(src1, open(m).read())
            if o2 is None:
                skipped += 1
                continue
            ov = dict(o1)
            ov.update(o2)
            jobs.append((pid, r, m, ov, base))
    with ProcessPoolExecutor(a.jobs) as ex:
        results = list(ex.map(_job, jobs, chunksize=4))
    silent = [x for x in results if x[3] == "pass"]
    undecided = [x for x in results if x[3] in ("error", "crash")]
    print(f"{len(results)} composed variants analysed ({skipped} pairs do not compose): "
          f"{sum(1 for x in results if x[3] == 'violation')} reported, {len(undecided)} cannot-decide, {len(silent)} SILENT")
    for pid, r, m, kind, msg in silent:
        print(f"SILENT {pid}: {r} + {m}")
    if a.v:
        for pid, r, m, kind, msg in undecided:
            print(f"UNDECIDED {pid}: {r} + {m}: {msg[:160]}")
    return 1 if silent else 0


if __name__ == "__main__":
    sys.exit(main())
