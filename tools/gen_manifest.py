"""Regenerate MANIFEST.json from the rule modules present under sa/rules (kept valid at all times)."""
import importlib, json, os, sys
VERIF = os.path.dirname(os.path.dirname(os.path.abspath(__file__)))
sys.path.insert(0, VERIF)
props = [json.loads(l) for l in open(os.path.join(VERIF, "properties.jsonl"))]
NA = {}   # property id -> reason, for properties deliberately not claimed
na_file = os.path.join(VERIF, "tools", "not_applicable.json")
if os.path.exists(na_file):
    NA = json.load(open(na_file))
checks, na = [], []
for p in props:
    pid = p["id"]
    path = os.path.join(VERIF, "sa", "rules", pid.lower() + ".py")
    if pid in NA or not os.path.exists(path):
        na.append({"property_id": pid, "reason": NA.get(pid, "check under construction in this session; not claimed yet")})
        continue
    mod = importlib.import_module(f"sa.rules.{pid.lower()}")
    meta = mod.META
    checks.append({
        "property_id": pid,
        "quick_cmd": f"/venv/bin/python -m sa.check {pid} --tier quick",
        "thorough_cmd": f"/venv/bin/python -m sa.check {pid} --tier thorough",
        "evidence_file": f"/verif/evidence/{pid}.json",
        "replay_cmd_template": "/venv/bin/python -m sa.check --replay {path}",
        "engine": "sa",
        "level_claimed": {"category": "other",
                          "text": meta.get("level", meta["explanation"]),
                          "design_ref": f"DESIGN.md section 5 ({pid})"},
        "level_note": "Trusted base: " + "; ".join(meta.get("trusted_base", [])) +
                      (". Assumptions: " + "; ".join(meta["assumptions"]) if meta.get("assumptions") else "") +
                      (". Not decided: " + meta["not_decided"] if meta.get("not_decided") else ""),
        "technique": meta.get("technique", "static analysis: ast-based effect/value summaries + rule queries"),
    })
m = {
    "version": 1,
    "setup_cmd": "/venv/bin/python -m compileall -q sa",
    "hooks": {"guard": "IXAI_VERIF",
              "enable": "none: the checks are static analyses of /repo's working tree; no hook commit exists and nothing in /repo reads the guard",
              "baseline_off_cmd": "cd /repo && /venv/bin/python -m pytest -ra -q -p no:cacheprovider --timeout=900 --continue-on-collection-errors",
              "source_commits": [], "add_only": True},
    "engines": [{"name": "sa", "path": "/verif/sa", "serves_properties": [c["property_id"] for c in checks],
                 "kind_free_text": "custom static analyser: ast loader/resolver, gated value graph + effect tree per function, "
                                   "structured path enumeration, exact rational-function normaliser, repository-specific rules"}],
    "checks": checks,
    "not_applicable": na,
    "notes": "All checks are static (no code of /repo is imported or executed). exit 0 = all rule instances discharged; "
             "exit 1 + VIOLATION line = a rule instance refuted; exit 2 + ANALYSIS-ERROR = cannot decide (never a VIOLATION). "
             "thorough = quick verdict + in-memory witness-mutation / equivalence-refactoring corpus (liveness of each rule). "
             "Genuine defects found were repaired by `fix:` commits in /repo and are recorded in /verif/known_findings.json.",
}
json.dump(m, open(os.path.join(VERIF, "MANIFEST.json"), "w"), indent=1)
print(f"{len(checks)} checks, {len(na)} not claimed")
