"""CLI: decide one property on /repo's current working tree.

  python -m sa.check C07 --tier quick|thorough
  python -m sa.check --replay evidence/replay/C07-1.json

exit 0: every obligation discharged (KNOWN-FINDING lines possible)
exit 1: VIOLATION property=<id> replay=<path>   (a rule instance is refuted)
exit 2: ANALYSIS-ERROR property=<id> ...        (cannot decide; never a VIOLATION)
"""
import argparse
import importlib
import json
import os
import sys
import traceback

from . import ir
from .report import AnalysisError, Refuted, Run, Timer, split_known, write_evidence, write_replay

PIDS = [f"C{i:02d}" for i in range(1, 21)]


def rule_module(pid):
    return importlib.import_module(f"sa.rules.{pid.lower()}")


def evaluate(pid, sources=None, overrides=None, tier="quick", seed=0):
    """Run the rule set of `pid` on a program; returns (run, error-or-None)."""
    mod = rule_module(pid)
    try:
        prog = ir.Program(sources=sources, overrides=overrides)
        if len(prog.modules) < 40:
            raise AnalysisError(f"only {len(prog.modules)} units parsed under {prog.root}/ixai (expected >= 40)")
        run = Run(pid, prog, tier, seed)

        def hazards():
            # constructs that are wrong wherever they occur, met in the code this check has analysed (ir.Program.hazard)
            for kind, where, func, construct, message in prog.hazards:
                run.fail("HAZARD", f"{kind}:{construct}", where, func, construct, message)
        try:
            mod.check(run)
            hazards()
        except Refuted as r:
            run.fail(r.rule, r.instance, r.where, r.func, r.construct, r.message)
        except (AnalysisError, ir.Unsupported) as e:
            # a clause that could not be decided does not take back a violation that was already established
            hazards()
            if not run.findings:
                raise
            run.notes["undecided_after_findings"] = f"{type(e).__name__}: {e}"
        for rule, minimum in ({} if run.findings else getattr(mod, "MIN_INSTANCES", {})).items():
            got = len(run.rule_instances.get(rule, ()))
            if got < minimum:
                raise AnalysisError(f"rule {rule} matched {got} instances, confirmed minimum is {minimum} "
                                    f"(a rule that matches nothing would pass vacuously)")
        return run, None
    except (AnalysisError, ir.Unsupported) as e:
        return None, f"{type(e).__name__}: {e}"
    except SyntaxError as e:
        return None, f"SyntaxError: {e}"
    except RecursionError as e:
        return None, f"RecursionError: {e}"


_BASE_SOURCES = None


def _variant(job):
    pid, name, overrides = job
    try:
        run, err = evaluate(pid, sources=_BASE_SOURCES, overrides=overrides)
    except Exception as e:  # analyser crash on a variant
        return name, "crash", [f"{type(e).__name__}: {e}"]
    if err:
        return name, "error", [err]
    if run.findings:
        return name, "violation", [f"{f.rule}:{f.instance}@{f.func}" for f in run.findings]
    return name, "pass", []


def witness_corpus(pid, sources, jobs=16):
    """Thorough tier: apply every witness mutation / equivalence refactoring of the property to an
    in-memory copy of the current tree and re-analyse. Returns a report dict and a list of
    problems (vacuous rule instances / noisy refactorings)."""
    global _BASE_SOURCES
    mod = rule_module(pid)
    _BASE_SOURCES = sources
    work, skipped = [], []
    for kind, lst in (("catch", getattr(mod, "WITNESSES", [])), ("silent", getattr(mod, "SILENT", []))):
        for w in lst:
            name, edits = w[0], w[1]
            overrides, applicable = {}, True
            for edit in edits:
                path, old, new = edit[:3]
                text = overrides.get(path, sources.get(path))
                if text is None or text.count(old) < 1:
                    applicable = False
                    break
                overrides[path] = text.replace(old, new) if len(edit) > 3 and edit[3] == "all" \
                    else text.replace(old, new, 1)
            if not applicable:
                skipped.append(f"{kind}:{name}")
                continue
            work.append((kind, (pid, name, overrides)))
    # committed corpora: seeded changes this property's check is recorded to report, and behaviour-preserving
    # refactorings (must stay silent); replayed in memory on the current sources when they still apply
    from . import udiff
    from .report import VERIF
    import glob
    for d in sorted(glob.glob(os.path.join(VERIF, "seeded", "*", "patch.diff"))):
        try:
            meta = json.load(open(os.path.join(os.path.dirname(d), "meta.json")))
        except Exception:
            continue
        if pid not in meta.get("checks_reporting_violation", []):
            continue
        name = "seeded:" + os.path.basename(os.path.dirname(d))
        ov = udiff.apply(sources, open(d, encoding="utf-8").read())
        if ov is None:
            skipped.append(name)
        else:
            work.append(("catch", (pid, name, ov)))
    for d in sorted(glob.glob(os.path.join(VERIF, "refactorings", "*", "patch.diff"))):
        name = "refactoring:" + os.path.basename(os.path.dirname(d))
        ov = udiff.apply(sources, open(d, encoding="utf-8").read())
        try:
            rmeta = json.load(open(os.path.join(os.path.dirname(d), "meta.json")))
        except Exception:
            rmeta = {}
        if ov is None:
            skipped.append(name)
        else:
            # a refactoring recorded as "this check cannot decide it" may answer cannot-decide, never VIOLATION
            work.append(("undecided-ok" if pid in rmeta.get("checks_answering_cannot_decide", []) else "silent", (pid, name, ov)))
    # composed variants: a refactoring of this property followed by a breaking change this check reports -- the
    # refactoring must not make the check blind (pairs whose hunks no longer apply are skipped silently)
    for rd in sorted(glob.glob(os.path.join(VERIF, "refactorings", pid + "-*", "patch.diff"))):
        o1 = udiff.apply(sources, open(rd, encoding="utf-8").read())
        if o1 is None:
            continue
        try:
            rmeta = json.load(open(os.path.join(os.path.dirname(rd), "meta.json")))
        except Exception:
            rmeta = {}
        undecided_base = pid in rmeta.get("checks_answering_cannot_decide", [])
        rname = os.path.basename(os.path.dirname(rd))
        src1 = dict(sources)
        src1.update(o1)
        for md in sorted(glob.glob(os.path.join(VERIF, "seeded", pid + "-*", "patch.diff"))):
            try:
                meta = json.load(open(os.path.join(os.path.dirname(md), "meta.json")))
            except Exception:
                continue
            if pid not in meta.get("checks_reporting_violation", []):
                continue
            if rname in meta.get("not_broken_after", {}):
                continue        # the refactoring removes the code the defect needs: the composition was run and is correct
            o2 = udiff.apply(src1, open(md, encoding="utf-8").read())
            if o2 is None:
                continue
            ov = dict(o1)
            ov.update(o2)
            work.append(("catch-or-undecided" if undecided_base else "catch",
                         (pid, "composed:" + rname + "+" + os.path.basename(os.path.dirname(md)), ov)))
    results = []
    if work:
        import multiprocessing as mp
        ctx = mp.get_context("fork")
        with ctx.Pool(min(jobs, len(work))) as pool:
            results = pool.map(_variant, [j for _, j in work])
    problems, report = [], []
    for (kind, _), (name, status, info) in zip(work, results):
        report.append({"witness": name, "kind": kind, "status": status, "info": info[:3]})
        if kind == "catch" and status != "violation":
            problems.append(f"witness mutation '{name}' applied but was not reported ({status}: {info[:1]})")
        if kind == "silent" and status != "pass":
            problems.append(f"equivalence refactoring '{name}' is not accepted silently ({status}: {info[:2]})")
        if kind == "catch-or-undecided" and status not in ("violation", "error"):
            problems.append(f"witness mutation '{name}' applied on a refactoring recorded as not decided passes ({status})")
        if kind == "undecided-ok" and status not in ("pass", "error"):
            problems.append(f"equivalence refactoring '{name}' (recorded as not decided) is reported ({status}: {info[:2]})")
    return {"witnesses_applied": len(work), "witnesses_not_applicable": skipped, "witness_results": report}, problems


def main(argv=None):
    ap = argparse.ArgumentParser()
    ap.add_argument("pid", nargs="?")
    ap.add_argument("--tier", default=os.environ.get("VERIF_TIER", "quick"))
    ap.add_argument("--replay")
    ap.add_argument("--jobs", type=int, default=16)
    a = ap.parse_args(argv)
    replay_key = None
    if a.replay:
        with open(a.replay, encoding="utf-8") as fh:
            replay_key = json.load(fh)
        a.pid = replay_key["property"]
    if a.pid not in PIDS:
        print(f"usage: python -m sa.check <{PIDS[0]}..{PIDS[-1]}> [--tier quick|thorough]")
        return 2
    tier = a.tier if a.tier in ("quick", "thorough") else "quick"
    try:
        seed = int(os.environ.get("VERIF_SEED", "0"))
    except ValueError:
        seed = 0
    timer = Timer()
    pid = a.pid
    mod = rule_module(pid)
    meta = dict(getattr(mod, "META", {}))
    meta["cmd"] = f"/venv/bin/python -m sa.check {pid} --tier {tier}"
    try:
        sources = ir.read_sources()
        run, err = evaluate(pid, sources=sources, tier=tier, seed=seed)
        if err:
            print(f"ANALYSIS-ERROR property={pid} {err}")
            return 2
        extra = {}
        problems = []
        if tier == "thorough" and not replay_key:
            extra, problems = witness_corpus(pid, sources, a.jobs)
            # cross-check of the path rules: one more loop unrolling must give the same verdict
            from . import paths as _paths
            _paths.EXTRA_UNROLL = 1
            try:
                run3, err3 = evaluate(pid, sources=sources, tier=tier, seed=seed)
            finally:
                _paths.EXTRA_UNROLL = 0
            if err3:
                extra["unroll_crosscheck"] = f"not decidable at unroll+1: {err3}"
                if "path explosion" not in err3:
                    problems.append(f"deeper unrolling cannot be analysed: {err3}")
            else:
                k2 = sorted((f.rule, f.func, f.construct) for f in run.findings)
                k3 = sorted((f.rule, f.func, f.construct) for f in run3.findings)
                extra["unroll_crosscheck"] = {"paths_unroll": run.analysed["paths"], "paths_unroll_plus_1": run3.analysed["paths"],
                                              "same_verdict": k2 == k3}
                if k2 != k3:
                    problems.append("verdict differs between loop unrolling k and k+1 (path rules are not stable)")
        new, known = split_known(run.findings, pid)
        if replay_key:
            hits = [f for f in run.findings if all(f.key()[k] == replay_key.get(k) for k in f.key())]
            for f in hits:
                print(f"REPLAY property={pid} rule={f.rule} instance={f.instance} at {f.where} in {f.func}: {f.message}")
            print(f"replay: {len(hits)} matching finding(s) on the current tree")
            return 1 if hits else 0
        print(f"{pid} [{tier}] units={len(run.prog.modules)} functions={len(run.analysed['functions'])} "
              f"obligations={len(run.obligations)} discharged="
              f"{sum(1 for o in run.obligations if o['status'] == 'discharged')} "
              f"rules={','.join(sorted(run.rule_instances))}")
        for f, entry in known:
            print(f"KNOWN-FINDING: property={pid} {entry.get('what', f.message)} [{f.rule} {f.func} {f.where}]")
        if not os.environ.get("IXAI_VERIF_NO_EVIDENCE"):
            write_evidence(run, meta, timer.elapsed(), len(new), extra)
        if new:
            for i, f in enumerate(new, 1):
                path = write_replay(f, i) if not os.environ.get("IXAI_VERIF_NO_EVIDENCE") else "(dry-run)"
                print(f"VIOLATION property={pid} replay={path}")
                print(f"  {f.where} in {f.func}: rule {f.rule} instance {f.instance}: {f.message}")
            return 1
        if problems:
            for p in problems:
                print(f"ANALYSIS-ERROR property={pid} {p}")
            return 2
        if tier == "thorough":
            print(f"{pid} witness corpus: {extra.get('witnesses_applied', 0)} variants re-analysed, "
                  f"{len(extra.get('witnesses_not_applicable', []))} not applicable")
        return 0
    except Exception as e:  # analyser bug: never looks like a violation
        print(f"ANALYSIS-ERROR property={pid} analyser crashed: {type(e).__name__}: {e}")
        traceback.print_exc(limit=-6, file=sys.stdout)
        return 2


if __name__ == "__main__":
    sys.exit(main())
