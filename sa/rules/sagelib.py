"""Shared structure recovery for the SAGE/PFI explainers (C01-C05, C15): roles, chain loops."""
from .. import ir
from ..paths import walk
from ..report import AnalysisError
from .common import field_roles


def role_fields(prog, cls):
    roles = field_roles(prog, cls)
    out = {}
    for f, r in roles.items():
        out.setdefault(r, []).append(f)
    return roles, out


def one(fields, role, cls):
    fs = fields.get(role, [])
    if len(fs) != 1:
        raise AnalysisError(f"{cls.name}: expected exactly one {role} field, found {fs}")
    return fs[0]


def is_call_to(ev, field, method=None):
    return isinstance(ev, ir.Call) and ev.callee == f"self.{field}" and (method is None or ev.method == method)


def loss_calls(events, loss_field):
    return [(ev, ctx) for ev, ctx in walk(events) if is_call_to(ev, loss_field) and ev.method is None]


def chain_loops(events, loss_field):
    """Innermost non-comprehension loops whose body (at any depth) calls the loss: the SAGE chain."""
    loops = [(ev, ctx) for ev, ctx in walk(events, structural=True) if isinstance(ev, ir.Loop) and not ev.comp]
    with_loss = []
    for lp, ctx in loops:
        if any(is_call_to(e, loss_field) and e.method is None for e, c in walk(lp.body)):
            with_loss.append((lp, ctx))
    inner = []
    for lp, ctx in with_loss:
        nested = any(other is not lp and any(l is lp for l in octx.loops) for other, octx in with_loss)
        if not nested:
            inner.append((lp, ctx))
    return inner


def direct_events(loop):
    """Leaf events of the loop body that are not inside a nested non-comprehension loop."""
    return [(ev, ctx) for ev, ctx in walk(loop.body) if not any(not l.comp for l in ctx.loops)]


FEATURE_NAMES = ("field0", "feature_names")
