"""C19 -- TreeStorage reservoirs track current leaves; TreeImputer uses observed values (structural clauses).

 LEN      len(storage) is a counter starting at 0 and incremented exactly once per update call;
 RESERVOIR a reservoir for an unseen leaf id is an always-insert GeometricReservoirStorage of the configured length;
           its creation is followed on the same path by the outdated-reservoir sweep; the *complete* point is
           inserted (not the copy with the feature removed), after the tree has learned the point;
 SWEEP     the sweep deletes exactly the ids that are not among the enumerated current tree paths, iterating a copy;
 AGREE     leaf-id writer (walk of one point) and enumerator (all paths) emit the same token template per branch and
           per leaf; TreeImputer obtains its id from the same writer with the explained instance;
 IMPUTE    TreeImputer.impute obeys MERGE / KEYS / COUNT / NOMUT (C06 rules); in storage mode the value is
           row[f] of a uniformly drawn row of the routed leaf's reservoir, with the model fallback only in the
           KeyError handler; the samplers receive the explained instance itself.
Not decided: behaviour of river's trees at run time (restructuring, routing after learn_one, class sets).
"""
from .. import ir
from ..paths import root as paths_root
from ..paths import walk
from ..report import AnalysisError
from .algebra import identical
from .common import const_value, new_items
from .drawlib import exact_range
from . import c06

META = {
    "explanation": "Structural rules on TreeStorage.update (its helpers for routing, creation and the sweep inlined), the two "
                   "leaf-id producers (token templates extracted from string concatenation / join terms and compared), "
                   "and TreeImputer.impute with its samplers inlined (argument bindings, provenance of the sampled value, "
                   "position of the fallback).",
    "trusted_base": ["river tree API: children / next / repr_split / branch_no / learn_one",
                     "an always-insert reservoir of length L keeps the newest point (C07, C09)"],
    "assumptions": [],
    "not_decided": "that every stale reservoir is gone after every update, that the newest point's leaf equals the leaf it is "
                   "routed to after learn_one, class sets of categorical predictions (run-time behaviour of river)",
}
META["explanation"] += ' Also COPY for TreeStorage / GeometricReservoirStorage, the class value drawn by a standard-library draw over the keys of predict_proba_one, the rebuild-in-place sweep.'
META["explanation"] += " Round 5: ROOT (no tree root node kept in the state), the sweep depends only on 'a reservoir was just created', the mode flag does not test the storage object for truth. HAZARD: constructs that do not mean what they look like, met in the analysed code (defaults evaluated once, class-level containers changed through self, dict.fromkeys with a shared mutable value, late-binding lambdas, truth value of objects that define __len__) are reported by every check."
MIN_INSTANCES = {"LEN": 2, "RESERVOIR": 4, "SWEEP": 2, "AGREE": 3, "IMPUTE": 3}
TS = "TreeStorage"
WRITER = "get_path_through_tree"
ENUM_NAME = "get_all_tree_paths"


def _enum(prog):
    q = prog.find_function(ENUM_NAME)
    if q is None:
        raise AnalysisError(f"anchor function vanished: {ENUM_NAME}")
    return q


def check(run):
    _check_own(run)
    from .copylib import copy_protocol
    for name in (TS, "GeometricReservoirStorage"):
        if run.prog.find_class(name) is not None:
            copy_protocol(run, run.prog, run.prog.find_class(name))    # copies keep the leaf reservoirs and their always-insert setting


def _check_own(run):
    prog = run.prog
    ts = prog.find_class(TS)
    ti = prog.find_class("TreeImputer")
    run.need(ts is not None and ti is not None, "anchor classes TreeStorage / TreeImputer vanished")
    _current_root(run, prog, (ts, ti))
    _len(run, prog, ts)
    _reservoirs(run, prog, ts)
    _sweep(run, prog, ts)
    _tokens(run, prog, ts)
    _imputer(run, prog, ts, ti)
    # the always-insert request must be honoured by the reservoir class (constructor keeps p = 1, accept test U <= p)
    from . import c09
    c09.check(c06.FilterRun(run, {"FORMULA", "AGREE"}, {"FORMULA": "RESERVOIR", "AGREE": "RESERVOIR"}))


def _current_root(run, prog, classes):
    """ROOT: a feature tree's root node is read from the tree whenever it is needed.  river *rebinds* `tree._root` when the
    root leaf splits (and when a drift swaps it), so a root node kept in the object's state -- alone or frozen inside a
    partial / closure -- is an orphan afterwards: points routed through it end in a leaf id that has no reservoir."""
    import ast
    n = 0
    for K in classes:
        for name, fn in K.methods.items():
            if name.startswith("__") and name != "__init__" and name != "__call__":
                continue
            try:
                s = prog.summarise(K, name)
            except ir.Unsupported:
                continue
            for ev, ctx in walk(s.events):
                kept = None
                if isinstance(ev, ir.Store):
                    kept = ev.value
                elif isinstance(ev, ir.SubStore) and paths_root(ev.cont)[0] == "field0":
                    kept = ev.value
                elif isinstance(ev, ir.Mut) and paths_root(ev.recv)[0] == "field0" and ev.method in ("append", "add", "update", "setdefault", "insert"):
                    kept = ("tuple", tuple(ev.args))
                if kept is None:
                    continue
                n += 1
                def holds_root(t, depth=0):
                    """the node itself, or a display / partial whose parts hold it (not a value computed from it)"""
                    if not isinstance(t, tuple) or not t or depth > 4:
                        return False
                    if t[0] == "attr" and len(t) > 2 and t[2] == "_root":
                        return True
                    if t[0] == "tuple":
                        return any(holds_root(x, depth + 1) for x in t[1])
                    if t[0] == "partial":
                        return any(holds_root(x, depth + 1) for x in t[2]) or any(holds_root(v, depth + 1) for _, v in t[3])
                    if t[0] == "new" and t[2] in ("list", "tuple", "set", "dict"):
                        return any(holds_root(x[-1] if x and x[0] in ("kv", "kw") else x, depth + 1) for x in t[3] if isinstance(x, tuple))
                    if t[0] == "gate":
                        return holds_root(t[2], depth + 1) or holds_root(t[3], depth + 1)
                    return False
                if holds_root(kept):
                    fq = f"{K.name}.{name}"
                    run.fail("ROOT", f"{fq}:kept-root", f"{s.path}:{ev.line}", fq, run.stmt_text(s.path, ev.line),
                             f"{fq} keeps a tree's `_root` node in the object's state ({ir.show_nl(kept)[:100]}): river rebinds "
                             f"`_root` when the root splits or is swapped after a drift, so later points are routed through an "
                             f"orphaned node and miss the reservoir of the leaf they really belong to")
    if not any(f.rule == "ROOT" for f in run.findings):
        run.ok("ROOT", "package", f"{n} writes to the state of TreeStorage / TreeImputer, none keeps a root node")


def _len(run, prog, ts):
    ls = prog.summarise(ts, "__len__")
    us = prog.summarise(ts, "update")
    init = prog.summarise(ts, "__init__")
    for n in ("__len__", "update", "__init__"):
        run.analysed_fn(f"{TS}.{n}")
    r = ls.ret
    ok = r[0] == "field0"
    run.check(ok, "LEN", "getter", f"{ls.path}:{ls.fn.lineno}", f"{TS}.__len__", f"len = {ir.show_nl(r)}",
              f"len(storage) must be the update counter; found {ir.show_nl(r)}", f"len = self.{r[1] if ok else '?'}")
    if not ok:
        return
    f = r[1]
    nxt = us.fields.get(f, r)
    same, info = identical(nxt, ("op", "+", r, ("const", 1)))
    run.check(same and const_value(init.fields.get(f, ("undef",))) == 0, "LEN", "counter", f"{us.path}:{us.fn.lineno}",
              f"{TS}.update", f"{f}' = {ir.show_nl(nxt)}",
              f"the length must start at 0 and grow by exactly one per update call on every path; {info if not same else ''}",
              f"{f}' = {f} + 1, initial 0")


def _reservoirs(run, prog, ts):
    init = prog.summarise(ts, "__init__")
    dr = init.fields.get("data_reservoirs")
    ok = dr is not None and dr[0] == "comp" and dr[1] == "dict" and not dr[6] and dr[4] == ("elem", dr[2]) and \
        dr[5][0] == "new" and dr[5][2] == "dict" and not dr[5][3] and dr[2] in (ir.site_loops(dr[5]) or ())
    why = ""
    if dr is not None and dr[0] == "comp" and dr[5][0] == "new" and dr[2] not in (ir.site_loops(dr[5]) or ()):
        why = "every feature is given the same inner dict object (reservoirs of different features overwrite and delete each other)"
    run.check(ok, "RESERVOIR", "per-feature-dicts", f"{init.path}:{init.fn.lineno}", f"{TS}.__init__",
              f"data_reservoirs = {ir.show_nl(dr)[:100] if dr else None}",
              f"every feature needs its own, initially empty, dict of leaf reservoirs: {why or (ir.show_nl(dr)[:120] if dr else 'missing')}",
              "data_reservoirs = {feature: {} for feature in feature_names} (fresh dict per feature)")
    s = prog.summarise(ts, "update")
    fq = f"{TS}.update"
    _, fn = prog.find_method(ts, "update")
    x = ("param", [a.arg for a in fn.args.args][1])
    geo = prog.find_class("GeometricReservoirStorage")
    run.need(geo is not None, "anchor class GeometricReservoirStorage vanished")
    index = {id(ev): i for i, (ev, _) in enumerate(walk(s.events))}
    cons = [(ev, ctx) for ev, ctx in walk(s.events) if isinstance(ev, ir.Construct) and ev.qual == geo.qual]
    if not cons:
        # reservoirs made by copying a template object instead of constructing one
        for ev, ctx in walk(s.events):
            if isinstance(ev, ir.SubStore) and ev.cont[0] == "sub" and ev.cont[1] == ("field0", "data_reservoirs") and \
                    ev.value[0] == "new" and ev.value[2] == "copy":
                run.fail("RESERVOIR", "own-containers", f"{s.path}:{ev.line}", fq,
                         f"leaf reservoir = shallow copy of {ir.show_nl(ev.value[3][0])[:60]}",
                         "a new leaf reservoir is a shallow copy of a template storage: the copy shares the template's "
                         "instance / target lists, so all leaf reservoirs (of all features) write into the same lists")
                return
    run.need(cons, "TreeStorage.update never creates a leaf reservoir")
    cev, cctx = cons[0]
    pos, kw = list(cev.args), dict(cev.kwargs)
    size = kw.get("size", pos[0] if pos else None)
    p = kw.get("constant_probability", pos[1] if len(pos) > 1 else None)
    lens = [f for f, t in init.fields.items() if t == ("param", "leaf_reservoir_length")]
    ok = len(lens) == 1 and size == ("field0", lens[0]) and p is not None and const_value(p) is not None and const_value(p) >= 1
    run.check(ok, "RESERVOIR", "always-insert", f"{s.path}:{cev.line}", fq,
              f"reservoir(size={ir.show_nl(size) if size else None}, p={ir.show_nl(p) if p else None})",
              "leaf reservoirs must have the configured length and always insert (constant probability >= 1) so that the "
              f"newest point is kept; found size={ir.show_nl(size) if size else None}, p={ir.show_nl(p) if p else 'default 1/size'}",
              "GeometricReservoirStorage(size=leaf_reservoir_length, constant_probability=1)")
    stores = [(ev, ctx) for ev, ctx in walk(s.events) if isinstance(ev, ir.SubStore) and ev.value == cev.res]
    run.need(stores, "the new reservoir is not stored")
    sev, sctx = stores[0]
    leaf_id = sev.key
    guard = ("cmp", "not in", leaf_id, sev.cont)
    run.check(guard in sctx.guards, "RESERVOIR", "create-on-new-leaf", f"{s.path}:{sev.line}", fq,
              f"creation guard {ir.show_nl(sctx.guards[-1])[:100] if sctx.guards else None}",
              "a reservoir must be created exactly when the leaf id has no reservoir yet", "if leaf_id not in reservoirs: create")
    dels = [(ev, ctx) for ev, ctx in walk(s.events) if isinstance(ev, ir.Del)] or _rebuilds(s)
    ok = bool(dels) and all(guard in ctx.guards and index[id(d)] > index[id(sev)] for d, ctx in dels)
    run.check(ok, "RESERVOIR", "sweep-after-create", f"{s.path}:{sev.line}", fq, "outdated-reservoir sweep",
              "creating a reservoir for a new leaf id (the tree changed shape) must be followed on the same path by the "
              "sweep that drops reservoirs of leaves no longer in the tree", "create; then sweep")
    ins = [(ev, ctx) for ev, ctx in walk(s.events) if isinstance(ev, ir.Mut) and ev.method == "update" and
           ev.recv == ("sub", sev.cont, leaf_id)]
    def inserted(ev):
        """the observation handed to reservoir.update (positional or x=...)"""
        if len(ev.args) == 1 and not ev.kwargs:
            return ev.args[0]
        if not ev.args and len(ev.kwargs) == 1 and ev.kwargs[0][0] == "x":
            return ev.kwargs[0][1]
        return None
    ok = len(ins) == 1 and inserted(ins[0][0]) == x and index[id(ins[0][0])] > index[id(sev)] and \
        guard not in ins[0][1].guards
    why = ""
    if len(ins) == 1 and inserted(ins[0][0]) != x:
        got = inserted(ins[0][0])
        why = f"the reservoir receives {ir.show_nl(got)[:80] if got else None} instead of the complete point"
    elif len(ins) != 1:
        why = f"{len(ins)} insertions into the leaf reservoir"
    elif guard in ins[0][1].guards:
        why = "the point is only inserted when the reservoir was just created"
    if ok:
        # which observations are stored may depend on which features they carry (membership tests), not on
        # the values: a truthiness / comparison test on a feature value drops observations (0, 0.0, False, '')
        from .boolalg import literal
        for g in ins[0][1].guards:
            a, pol = literal(g)
            presence = a[0] == "cmp" and (a[1] == "in" or (a[1] == "is" and a[3] == ("const", None)))
            if not presence:
                ok = False
                why = f"the point is only inserted when {ir.show_nl(g)[:100]} (an observation whose value fails this test " \
                      f"is neither learned nor stored)"
                break
    run.check(ok, "RESERVOIR", "complete-point", f"{s.path}:{ins[0][0].line if ins else sev.line}", fq,
              f"insertion: {why or 'ok'}",
              f"every update must insert the complete observed point into the reservoir of its leaf: {why}",
              "reservoirs[leaf_id].update(x) with the complete point, on every path")
    learn = [ev for ev, ctx in walk(s.events) if isinstance(ev, ir.Call) and ev.method == "learn_one"]
    routed = [ev for ev, ctx in walk(s.events) if isinstance(ev, ir.Call) and ev.callee.endswith("walk_through_tree")]
    ok = len(learn) == 1 and routed and index[id(learn[0])] < index[id(routed[0])]
    run.check(ok, "RESERVOIR", "learn-before-route", f"{s.path}:{learn[0].line if learn else s.fn.lineno}", fq,
              "learn_one vs routing order", "the tree must learn the point before the point is routed to its leaf",
              "learn_one precedes the routing")


def _rebuilds(s):
    """The other spelling of a sweep: the kept entries are collected (eagerly), the dict is emptied and refilled with
    them -- [(clear event, ctx)] for every `D.clear()` that is followed by `D.update(<entries of D>)`."""
    evs = list(walk(s.events))
    out = []
    for i, (ev, ctx) in enumerate(evs):
        if isinstance(ev, ir.Mut) and ev.method == "clear" and not ev.args:
            for ev2, ctx2 in evs[i + 1:]:
                if isinstance(ev2, ir.Mut) and ev2.recv == ev.recv and ev2.method == "update" and len(ev2.args) == 1 and \
                        ctx2.guards == ctx.guards and ctx2.loops == ctx.loops:
                    out.append((ev, ctx))
                    break
    return out


def _sweep(run, prog, ts):
    """The outdated-reservoir sweep, analysed where it happens: inside update (helpers inlined)."""
    ENUM = _enum(prog)
    s = prog.summarise(ts, "update")
    fq = f"{TS}.update"
    # the enumeration of the current tree's paths: a call of the (recursive) enumerator, or its inlined body
    enum = [(ev.res, ev.args, ev.kwargs, ctx) for ev, ctx in walk(s.events)
            if isinstance(ev, ir.Call) and ev.callee == ENUM]
    enum += [(ev.ret, tuple(ev.params.get(a.arg) for a in ev.fn.args.args[:1]), (), ctx)
             for ev, ctx in walk(s.events, structural=True)
             if isinstance(ev, ir.Inlined) and ev.cls is None and ev.qual == ENUM]
    dels = [(ev, ctx) for ev, ctx in walk(s.events) if isinstance(ev, ir.Del)]
    writers = [ev for ev, _ in walk(s.events, structural=True) if isinstance(ev, ir.Inlined) and ev.fn.name == WRITER]
    roots = {ev.params.get(ev.fn.args.args[0].arg) for ev in writers}
    rebuilt = _rebuilds(s) if not dels else []
    if rebuilt and len(enum) == 1 and len(enum[0][1]) == 1 and not enum[0][2] and enum[0][1][0] in roots:
        ok, why, line = _rebuild_form(s, rebuilt, enum[0][0])
        run.check(ok, "SWEEP", "predicate", f"{s.path}:{line}", fq, f"sweep: {why or 'ok'}",
                  f"the sweep must drop exactly the reservoir ids that are not among the current tree's enumerated paths: {why}",
                  "kept = [(id, r) for id, r in reservoirs.items() if id in all_paths]; reservoirs.clear(); reservoirs.update(kept)")
        _fresh_accumulator(run, prog, ENUM, ENUM_NAME)
        return
    ok = len(enum) == 1 and len(enum[0][1]) == 1 and not enum[0][2] and len(dels) == 1
    why = "" if ok else f"{len(enum)} enumerations / {len(dels)} deletions"
    if ok and enum[0][1][0] not in roots:
        ok, why = False, (f"the paths are enumerated from {ir.show_nl(enum[0][1][0])[:80]}, not from the root the point is "
                          f"routed through")
    if ok:
        enum_res = enum[0][0]
        dev, dctx = dels[0]
        res = dev.cont
        paths_forms = [enum_res] + [("new", "@", k, (enum_res,)) for k in ("set", "frozenset", "list", "tuple")] + \
            [("fn", k, (enum_res,)) for k in ("frozenset", "tuple", "sorted")]

        def stale_test(c, key):
            return c[0] == "cmp" and c[1] == "not in" and c[2] == key and ir.strip_sites(c[3]) in [ir.strip_sites(p) for p in paths_forms]

        def keys_of(t):
            """t enumerates the keys of the feature's reservoir dict"""
            return t == res or (t[0] == "res" and t[2] == ".keys" and t[3] == (res,))
        stores = [ev for ev, _ in walk(s.events) if isinstance(ev, ir.SubStore) and ev.value[0] == "new" and
                  ev.value[2].endswith("GeometricReservoirStorage")]
        lp = dctx.loops[-1] if dctx.loops else None
        ok = lp is not None and not lp.comp and dev.key == ("elem", lp.lid) and res[0] == "sub" and \
            res[1] == ("field0", "data_reservoirs") and bool(stores) and all(st.cont == res for st in stores)
        if not ok:
            why = "the deletion is not a per-id deletion from the feature's reservoirs"
        else:
            it = lp.iter
            own = [g for g in dctx.guards if ("elem", lp.lid) in ir.subterms(g)]
            # (a) copy of all ids, deletion guarded by the stale test
            form_a = ((it[0] == "new" and it[2] in ("list", "tuple", "set") and len(it[3]) == 1 and keys_of(it[3][0])) or
                      (it[0] == "fn" and it[1] in ("tuple", "sorted", "frozenset") and len(it[2]) == 1 and keys_of(it[2][0]))) \
                and len(own) == 1 and stale_test(own[0], dev.key)
            # (b) materialised list of the stale ids, unconditional deletion
            form_b = it[0] == "comp" and it[1] in ("list", "set") and keys_of(it[3]) and it[5] == ("elem", it[2]) and \
                len(it[6]) == 1 and stale_test(it[6][0], ("elem", it[2])) and not own
            ok = form_a or form_b
            if ok:
                # the sweep itself must not depend on anything but "a reservoir was just created": a test on the number of
                # reservoirs / leaves that skips it leaves reservoirs of vanished leaves behind
                extra = [g for g in dctx.guards if g not in own and
                         any(t == res or t == enum_res for t in ir.subterms(g)) and
                         not (g[0] == "cmp" and g[1] == "not in" and g[3] == res)]
                if extra:
                    ok, why = False, (f"the sweep is skipped unless {ir.show_nl(extra[0])[:120]}: reservoirs of leaves that "
                                      f"left the tree survive whenever that test fails")
            if not ok and not why:
                live = keys_of(it)
                why = ("the loop iterates the live dict while deleting from it" if live else
                       f"ids are deleted under {ir.show_nl(own[-1])[:100] if own else ir.show_nl(it)[:100]}, "
                       f"not exactly when they are missing from the enumerated tree paths")
    line = dels[0][0].line if dels else s.fn.lineno
    run.check(ok, "SWEEP", "predicate", f"{s.path}:{line}", fq, f"sweep: {why or 'ok'}",
              f"the sweep must delete exactly the reservoir ids that are not among the current tree's enumerated paths, "
              f"iterating over a copy of the ids: {why}", "for id in list(ids): if id not in all_paths: del reservoirs[id]")
    _fresh_accumulator(run, prog, ENUM, ENUM_NAME)


def _rebuild_form(s, rebuilt, enum_res):
    """clear() + update(kept): kept must be an eagerly built list / dict of exactly the entries of the same dict whose
    id is among the enumerated paths."""
    if len(rebuilt) != 1:
        return False, f"{len(rebuilt)} rebuilds of the reservoir dict", s.fn.lineno
    cev, cctx = rebuilt[0]
    res = cev.recv
    evs = [ev for ev, _ in walk(s.events)]
    upd = next(ev for ev in evs[evs.index(cev) + 1:] if isinstance(ev, ir.Mut) and ev.recv == res and ev.method == "update")
    kept = upd.args[0]
    if not (res[0] == "sub" and res[1] == ("field0", "data_reservoirs")):
        return False, "the dict that is emptied is not the feature's reservoir dict", cev.line
    paths_forms = [enum_res] + [("new", "@", k, (enum_res,)) for k in ("set", "frozenset", "list", "tuple")] + \
        [("fn", k, (enum_res,)) for k in ("frozenset", "tuple", "sorted")]
    forms = [ir.strip_sites(p) for p in paths_forms]
    if not (kept[0] == "comp" and kept[1] in ("list", "dict")):
        lazy = kept[0] == "comp" and kept[1] == "gen"
        return False, ("the kept entries are a generator that is only run after the dict has been emptied" if lazy else
                       f"the refill {ir.show_nl(kept)[:100]} is not an eagerly built collection of kept entries"), upd.line
    lid, it, key, val, conds = kept[2], kept[3], kept[4], kept[5], kept[6]
    el = ("elem", lid)
    if not (it[0] == "res" and it[2] == ".items" and it[3] == (res,)):
        return False, f"the kept entries are taken from {ir.show_nl(it)[:80]}, not from the reservoir dict itself", upd.line
    k, v = ("tget", el, 0), ("tget", el, 1)
    entry = (kept[1] == "list" and val in (el, ("tuple", (k, v)))) or (kept[1] == "dict" and key == k and val == v)
    if not entry:
        return False, "the kept entries are not the (id, reservoir) pairs themselves", upd.line
    test = len(conds) == 1 and conds[0][0] == "cmp" and conds[0][1] == "in" and conds[0][2] == k and \
        ir.strip_sites(conds[0][3]) in forms
    if not test:
        return False, (f"entries are kept under {ir.show_nl(conds[0])[:100] if conds else 'no test'}, not exactly when their id "
                       f"is among the enumerated tree paths"), upd.line
    return True, "", cev.line


def _fresh_accumulator(run, prog, ENUM, ENUM_NAME):
    _, efn = prog.func(ENUM)
    run.analysed_fn(ENUM_NAME)
    defaults = [d for d in efn.args.defaults]
    import ast
    mutable = [d for d in defaults if isinstance(d, (ast.List, ast.Dict, ast.Set, ast.Call))]
    m, _ = prog.func(ENUM)
    run.check(not mutable, "SWEEP", "fresh-accumulator", f"{m.path}:{efn.lineno}", ENUM_NAME, "accumulator default",
              "the path accumulator must be fresh per top-level call (a mutable default keeps ids of old tree shapes, so no "
              "reservoir is ever outdated)", "paths=None -> new list per call")


def _tok(t, node, out, branch_terms):
    """Flatten a string-building term into tokens."""
    if t[0] == "op" and t[1] == "+":
        _tok(t[2], node, out, branch_terms)
        _tok(t[3], node, out, branch_terms)
    elif t[0] == "const" and isinstance(t[1], str):
        if t[1]:
            out.append(("lit", t[1]))
    elif t[0] == "res" and t[2] == ".join" and len(t[3]) == 2 and t[3][0][0] == "const" and t[3][1][0] == "tuple":
        sep = t[3][0][1]
        for i, it in enumerate(t[3][1][1]):
            if i and sep:
                out.append(("lit", sep))
            _tok(it, node, out, branch_terms)
    elif t[0] == "fn" and t[1] == "str" and len(t[2]) == 1:
        a = t[2][0]
        if a == node:
            out.append(("str", "node"))
        elif a == ("attr", node, "repr_split"):
            out.append(("str", "split"))
        elif a in branch_terms or (a[0] == "res" and a[2] == ".branch_no" and a[3][0] == node):
            out.append(("str", "branch"))
        else:
            out.append(("str", ir.show_nl(a)))
    elif t[0] in ("mu", "param") or (t[0] == "gate"):
        out.append(("prefix",) if t[0] != "gate" else ("gate", ir.show_nl(t)[:40]))
    else:
        out.append(("other", ir.show_nl(t)[:60]))


def _merge_lits(toks):
    out = []
    for t in toks:
        if t[0] == "lit" and out and out[-1][0] == "lit":
            out[-1] = ("lit", out[-1][1] + t[1])
        else:
            out.append(t)
    return out


def _strip_prefix(toks, accumulated=False):
    """Drop the leading token that stands for the path walked so far (a parameter / loop-carried string; in
    the enumerator also a work-list component)."""
    toks = [t for t in toks if t != ("lit", "")]
    if toks and (toks[0] == ("prefix",) or (accumulated and toks[0][0] in ("other", "gate"))):
        toks = toks[1:]
    return toks


def _tokens(run, prog, ts):
    from .algebra import arms
    from .common import list_build
    w = prog.summarise(ts, WRITER)
    fqw = f"{TS}.{WRITER}"
    run.analysed_fn(fqw)
    loops = [ev for ev, _ in walk(w.events, structural=True) if isinstance(ev, ir.Loop) and not ev.comp]
    run.need(len(loops) == 1, "leaf-id writer is not a single loop over the walk through the tree")
    L = loops[0]
    node = ("elem", L.lid)
    walk_ok = any(t[0] == "res" and t[2].endswith("walk_through_tree") for t in ir.subterms(L.iter))
    run.check(walk_ok, "AGREE", "writer.walk", f"{w.path}:{L.line}", fqw, f"writer iterates {ir.show_nl(L.iter)[:80]}",
              "the leaf id must be built along walk_through_tree of the point", "id built along the walk")
    r = w.ret
    segment = None
    if r[0] == "eta" and r[1] == L.lid and ("self." not in r[2]):
        init, nxt = L.carried.get(r[2], (None, None))
        if init == ("const", ""):
            segment = nxt
    elif r[0] == "res" and r[2] == ".join" and len(r[3]) == 2 and r[3][0] == ("const", ""):
        lb = list_build(r[3][1], w.events)
        if lb is not None and len(lb.entries) == 1 and lb.entries[0][1] is not None and \
                [l for l in lb.entries[0][1].loops] == [L] and not lb.entries[0][1].guards:
            segment = lb.entries[0][0]
    run.need(segment is not None, f"leaf-id writer has an unrecognised shape: {ir.show_nl(r)[:100]}")
    w_templates = {}
    for facts, t in arms(segment):
        toks = []
        _tok(t, node, toks, ())
        kind = "branch" if any(f == ("fn", "hasattr", (node, ("const", "repr_split"))) for f in facts) else "leaf"
        w_templates[kind] = _strip_prefix(_merge_lits(toks))
    # ---- enumerator: the same two templates, wherever its traversal builds them (recursive call argument,
    # work-list entry, appended leaf path); the node is the object whose repr_split is written
    ENUM = _enum(prog)
    e = prog.summarise_func(ENUM)
    terms = []
    for ev, ctx in walk(e.events, structural=True):
        if isinstance(ev, ir.Loop):
            terms.append(ev.iter)
            continue
        if isinstance(ev, (ir.If, ir.Inlined, ir.Try, ir.With)):
            continue
        for part in ev:
            if isinstance(part, tuple) and part and isinstance(part[0], str):
                terms.append(part)
            elif isinstance(part, tuple):
                terms.extend(x for x in part if isinstance(x, tuple) and x and isinstance(x[0], str))
                terms.extend(x[1] for x in part if isinstance(x, tuple) and len(x) == 2 and isinstance(x[1], tuple))
    terms.append(e.ret)
    nodes = {t[1] for x in terms for t in ir.subterms(x) if t[0] == "attr" and t[2] in ("repr_split", "children")}
    run.need(len(nodes) == 1, f"enumerator descends into the children of {len(nodes)} different objects")
    enode = nodes.pop()
    children = ("attr", enode, "children")
    enum_lids = set()
    for x in terms:
        for t in ir.subterms(x):
            if t[0] == "comp" and t[3] == ("fn", "enumerate", (children,)):
                enum_lids.add(t[2])
    for ev, ctx in walk(e.events, structural=True):
        if isinstance(ev, ir.Loop) and ev.iter == ("fn", "enumerate", (children,)):
            enum_lids.add(ev.lid)
    branch_terms = tuple(("tget", ("elem", lid), 0) for lid in enum_lids)

    def string_terms(t):
        """maximal string-building subterms (concatenations / joins)"""
        if not isinstance(t, tuple) or not t:
            return
        if (t[0] == "op" and t[1] == "+") or (t[0] == "res" and len(t) > 2 and t[2] == ".join"):
            yield t
            return
        for x in t:
            if isinstance(x, tuple):
                yield from string_terms(x)
    e_templates = {}
    appended = [ev.args[0] for ev, _ in walk(e.events) if isinstance(ev, ir.Mut) and ev.method == "append" and ev.args]
    cands = []
    for x in terms:
        for t in string_terms(x):
            if t not in cands:
                cands.append(t)
    # an intermediate value of a string built in several statements is part of the finished one: keep the finished
    cands = [t for t in cands if not any(t is not u and t in ir.subterms(u) for u in cands)]
    for t in cands:
        if True:
            toks = []
            _tok(t, enode, toks, branch_terms)
            toks = _strip_prefix(_merge_lits(toks), accumulated=True)
            if ("str", "split") in toks or ("str", "branch") in toks:
                e_templates.setdefault("branch", toks)
                if e_templates["branch"] != toks:
                    e_templates["branch"] = [("ambiguous",)]
            elif t in appended or any(t in ir.subterms(a) for a in appended):
                if ("str", "node") in toks:
                    e_templates["leaf"] = toks
    # a leaf path built by augmented assignment (`walked_path += str(node) + SEP; paths.append(walked_path)`)
    if "leaf" not in e_templates:
        for a in appended:
            toks = []
            _tok(a, enode, toks, branch_terms)
            toks = _strip_prefix(_merge_lits(toks), accumulated=True)
            if ("str", "node") in toks:
                e_templates["leaf"] = toks
    for kind in ("branch", "leaf"):
        a, b = w_templates.get(kind), e_templates.get(kind)
        run.check(a is not None and a == b, "AGREE", f"template.{kind}", f"{w.path}:{L.line}", fqw,
                  f"{kind}: writer {a} vs enumerator {b}",
                  f"the id written for a visited {kind} node and the id enumerated for it differ: writer {a}, enumerator {b}; "
                  f"every reservoir would look outdated (or none would)", f"{kind} template {a}")


def _imputer(run, prog, ts, ti):
    _model_classes(run, prog, ti)
    # the storage mode is what the caller asked for: it must not be derived from the truth value of the storage object
    # (TreeStorage defines __len__: a storage that has not seen data yet is false)
    init = prog.summarise(ti, "__init__")
    held = {t for f, t in init.fields.items() if t[0] == "param"}
    for f, t in init.fields.items():
        if t in held:
            continue
        tested = []
        for x in ir.subterms(t):
            ops = x[1] if x[0] in ("and", "or") else ((x[1],) if x[0] in ("not", "gate") else
                                                      (x[2] if x[0] == "fn" and x[1] == "bool" else ()))
            tested += [o for o in ops if o in held and o != ("param", f)]
        objects = [o for o in tested if any(o == init.fields.get(g) and any(
            isinstance(e, ir.Call) and e.callee.startswith(f"self.{g}") for e, _ in walk(prog.summarise(ti, "impute").events))
            for g in init.fields)]
        run.check(not objects, "IMPUTE", f"mode-flag.{f}", f"{init.path}:{init.fn.lineno}", "TreeImputer.__init__",
                  f"self.{f} = {ir.show_nl(t)[:80]}",
                  f"self.{f} depends on the truth value of the object passed as `{objects[0][1] if objects else ''}`: a storage that "
                  f"holds nothing yet is false (TreeStorage.__len__), so an imputer built before the stream starts is silently "
                  f"switched to another mode", f"self.{f} does not test a collaborator object for truth")
    fr = c06.FilterRun(run, {"MERGE", "KEYS", "COUNT", "NOMUT"}, {"MERGE": "IMPUTE", "KEYS": "IMPUTE", "COUNT": "IMPUTE", "NOMUT": "IMPUTE"})
    c06._imputer(fr, prog, ti)
    s = prog.summarise(ti, "impute")
    fq = "TreeImputer.impute"
    from .imputerlib import impute_params
    subset, x, n = impute_params(prog, ti)
    # samplers (the imputer's own helper methods called from impute) get the explained instance itself:
    # an argument that is built from x_i must be x_i
    samplers = []
    for ev, ctx in walk(s.events, structural=True):
        if isinstance(ev, ir.Inlined) and ev.cls is not None and ev.fn.name in {n for c in prog.mro(ti) for n in c.methods} and not ctx.inl:
            samplers.append(ev)
            derived = [(k, v) for k, v in ev.params.items() if x in ir.subterms(v)]
            for k, v in derived:
                run.check(v == x, "IMPUTE", f"sampler-input.{ev.fn.name}", f"{s.path}:{ev.line}", fq,
                          f"{ev.qual} gets {k} = {ir.show_nl(v)[:60]}",
                          f"the samplers must route and condition on the explained instance itself; {ev.qual} receives "
                          f"{ir.show_nl(v)[:100]} (e.g. a partially imputed copy routes later features to the wrong leaf)",
                          f"{ev.qual}({k}=x_i)")
            run.need(derived or not ev.params, f"{ev.qual} is not given the explained instance")
    # the storage-mode sampler is the helper that asks the storage's id writer for the leaf of the instance
    helpers = {n for c in prog.mro(ti) for n in c.methods}
    smode = [ev for ev, _ in walk(s.events, structural=True)
             if isinstance(ev, ir.Inlined) and ev.cls is not None and ev.fn.name in helpers and
             any(isinstance(c, ir.Call) and c.method == WRITER and not cctx.inl for c, cctx in walk(ev.body))]
    run.need(len({ev.fn.name for ev in smode}) == 1, "TreeImputer.impute has no (single) storage-mode sampler using the id writer")
    sname = smode[0].fn.name
    st = prog.summarise(ti, sname)
    fq2 = f"TreeImputer.{sname}"
    run.analysed_fn(fq2)
    _, sfn = prog.find_method(ti, sname)
    writer = [ev for ev, _ in walk(st.events) if isinstance(ev, ir.Call) and ev.method == WRITER]
    xi = writer[0].args[1] if len(writer) == 1 and len(writer[0].args) == 2 else None
    ok = xi is not None and xi[0] == "param" and smode[0].params.get(xi[1]) == x
    run.check(ok, "AGREE", "imputer-id", f"{st.path}:{st.fn.lineno}", fq2, "leaf id of the instance",
              "TreeImputer must compute the leaf id with the storage's own id writer on the explained instance",
              "leaf_id = storage.get_path_through_tree(root, x_i)")
    own = {n for c in prog.mro(ti) for n in c.methods}
    tries = [ev for ev, _ in walk(st.events, structural=True) if isinstance(ev, ir.Try) and
             any("KeyError" in h.exc or "LookupError" in h.exc for h in ev.handlers)]
    good = False
    why = "no try/except KeyError around the reservoir lookup"
    if len(tries) == 1 and ok:
        t = tries[0]
        draws = [ev for ev, _ in walk(t.body) if isinstance(ev, ir.Draw)]
        gd = [ev for ev, _ in walk(t.body) if isinstance(ev, ir.Call) and ev.method == "get_data"]
        fb = [ev for h in t.handlers for ev, c in walk(h.body, structural=True) if isinstance(ev, ir.Inlined) and
              ev.cls is not None and ev.fn.name in own and not c.inl]
        fb_names = {ev.fn.name for ev in fb}
        body_fb = [ev for ev, _ in walk(t.body, structural=True) if isinstance(ev, ir.Inlined) and ev.cls is not None and
                   ev.fn.name in fb_names]
        if len(gd) == 1 and len(draws) == 1:
            rows = ("tget", gd[0].res, 0)
            rv = gd[0].recv
            res_ok = rv[0] == "sub" and rv[2] == writer[0].res and rv[1][0] == "sub" and rv[1][2][0] == "param" and \
                rv[1][1] == ("attr", ("field0", "storage_object"), "data_reservoirs") and \
                smode[0].params.get(rv[1][2][1], ("?",))[0] == "elem"
            verdict, info = exact_range(draws[0].res, ("fn", "len", (rows,)))
            keyerr = len(t.handlers) == 1 and t.handlers[0].exc == ("KeyError",)
            good = res_ok and verdict is True and keyerr and len(fb) >= 1 and len(fb_names) == 1 and not body_fb
            why = ("the reservoir is not the one of the routed leaf" if not res_ok else
                   f"row index: {info}" if verdict is not True else
                   "the model fallback is not confined to the KeyError handler")
        else:
            why = f"{len(gd)} reservoir reads / {len(draws)} draws in the lookup"
    run.check(good, "IMPUTE", "storage-value", f"{st.path}:{st.fn.lineno}", fq2, f"storage mode: {why if not good else 'ok'}",
              f"in storage mode the value must be row[f] of a uniformly drawn row of the routed leaf's reservoir, falling back "
              f"to the tree's own prediction only when that leaf has no reservoir: {why}",
              "reservoirs[f][leaf_id].get_data()[0][uniform idx][f]; except KeyError -> model sample")


def _model_classes(run, prog, ti):
    """The sampler that draws a categorical value from the feature tree's class probabilities hands back one of the
    classes themselves: the keys of predict_proba_one, picked by a standard-library draw.  A NumPy draw over the keys
    returns elements of an array built from them, i.e. coerced to one dtype (1, 2, 'n/a' become '1', '2', 'n/a')."""
    from .drawlib import draws_in
    n = 0
    for k in prog.mro(ti):
        for mname, fn in k.methods.items():
            if prog.find_method(ti, mname)[1] is not fn:
                continue
            try:
                s = prog.summarise(ti, mname)
            except ir.Unsupported:
                continue
            probas = [ev for ev, ctx in walk(s.events) if isinstance(ev, ir.Call) and ev.method == "predict_proba_one" and not ctx.inl]
            if not probas:
                continue
            n += 1
            fq = f"TreeImputer.{mname}"
            run.analysed_fn(fq)
            pr = probas[0].res
            ds = [d for d in draws_in(s.ret) if pr in ir.subterms(d)]
            np_draw = next((d for d in ds if d[2].startswith("numpy.random.")), None)
            if np_draw is not None:
                run.fail("IMPUTE", f"class-value.{mname}", f"{s.path}:{s.fn.lineno}", fq, f"{np_draw[2]} over the classes",
                         f"the categorical value is drawn with {np_draw[2]} over the classes the feature tree knows: NumPy first "
                         f"builds an array of them, so classes of mixed types (1, 2, 'n/a') are coerced to strings and the model "
                         f"is handed '2' instead of the observed class 2")
            elif ds and all(d[2] in ("random.choices", "random.choice", "random.sample") for d in ds):
                run.ok("IMPUTE", f"class-value.{mname}", f"value = one of the keys of predict_proba_one, drawn by {ds[0][2]}")
            else:
                raise AnalysisError(f"{fq}: how the class value is drawn from predict_proba_one is not followed")
    run.need(n >= 1, "TreeImputer has no sampler reading predict_proba_one")


_T = "ixai/storage/tree_storage.py"
_I = "ixai/imputer/tree_imputer.py"
WITNESSES = [
    ("length counted per feature", [(_T, "                self.performances[feature_name].update(y_i, pred_i)\n        self._seen_samples += 1\n", "                self.performances[feature_name].update(y_i, pred_i)\n                self._seen_samples += 1\n")]),
    ("reservoir gets the reduced point", [(_T, "        data_reservoir[leaf_id].update(x)\n", "        data_reservoir[leaf_id].update(x_i)\n")]),
    ("sweep dropped", [(_T, "            self._delete_outdated_reservoirs(feature_name, root_node)\n", "")]),
    ("sweep predicate inverted", [(_T, "            if reservoirs_label not in all_leafs:", "            if reservoirs_label in all_leafs:")]),
    ("writer uses another separator", [(_T, "walked_path += \"|\" + str(stop.repr_split) + \"|\" + str(stop.branch_no(x_i))", "walked_path += \"/\" + str(stop.repr_split) + \"/\" + str(stop.branch_no(x_i))")]),
    ("enumerator omits the split", [(_T, "\"|\".join((str(node), str(node.repr_split), str(branch_no)))", "\"|\".join((str(node), str(branch_no)))")]),
    ("leaf reservoir with default probability", [(_T, "store_targets=False, constant_probability=1.0)", "store_targets=False)")]),
    ("reservoir length constant", [(_T, "size=self._leaf_reservoir_length,", "size=10,")]),
    ("mutable default accumulator", [(_T, "def get_all_tree_paths(node, walked_path: str = '', paths=None) -> List[str]:\n    if paths is None:\n        paths = []\n", "def get_all_tree_paths(node, walked_path: str = '', paths: List[str] = []) -> List[str]:\n")]),
    ("imputer routes a partially imputed point", [(_I, "            sampled_values = {}\n            for feature_name in feature_subset:\n                if self.use_storage:\n                    sampled_value = self._sample_from_storages(feature_name, x_i, n_samples=n_samples)",
                                                   "            sampled_values = {}\n            for feature_name in feature_subset:\n                if self.use_storage:\n                    sampled_value = self._sample_from_storages(feature_name, {**x_i, **sampled_values}, n_samples=n_samples)")]),
    ("fallback on every lookup", [(_I, "            sampled_feature_value = x_sampled[feature_name]\n        except KeyError:", "            sampled_feature_value = self._sample(feature_name=feature_name, x_i=x_i)\n        except KeyError:")]),
    ("insert only into new reservoirs", [(_T, "            self._delete_outdated_reservoirs(feature_name, root_node)\n        data_reservoir[leaf_id].update(x)\n", "            self._delete_outdated_reservoirs(feature_name, root_node)\n            data_reservoir[leaf_id].update(x)\n")]),
    ("shared inner reservoir dict", [(_T, "self.data_reservoirs = {feature: {} for feature in self.feature_names}", "self.data_reservoirs = dict.fromkeys(self.feature_names, {})")]),
    ("route before learning", [(_T, "                feature_model.learn_one(x_i, y_i)\n                self._update_data_reservoirs(feature_name, x_i, x)\n", "                self._update_data_reservoirs(feature_name, x_i, x)\n                feature_model.learn_one(x_i, y_i)\n")]),
]
SILENT = [
    ("writer via f-string-free join", [(_T, "walked_path += \"|\" + str(stop.repr_split) + \"|\" + str(stop.branch_no(x_i))", "walked_path += \"|\" + \"|\".join((str(stop.repr_split), str(stop.branch_no(x_i))))")]),
]
