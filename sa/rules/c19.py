"""C19 -- TreeStorage reservoirs track current leaves; TreeImputer uses observed values (structural clauses).

 LEN      len(storage) is a counter starting at 0 and incremented exactly once per update call;
 RESERVOIR a reservoir for an unseen leaf id is an always-insert GeometricReservoirStorage of the configured length;
           its creation is followed on the same path by the outdated-reservoir sweep; the *complete* point is
           inserted (not the copy with the feature removed), after the tree has learned the point;
 SWEEP     the sweep deletes exactly the ids that are not among the enumerated current tree paths, iterating a copy;
 AGREE     leaf-id writer (walk of one point) and enumerator (all paths) emit the same token template per branch and
           per leaf; TreeImputer obtains its id from the same writer with the explained instance;
 IMPUTE    TreeImputer.impute obeys MERGE / KEYS / COUNT / NOMUT (C06 rules); in storage mode the value is
           row[f] of a uniformly drawn row of the routed leaf's reservoir, with the model fallback only in the
           KeyError handler; the samplers receive the explained instance itself.
Not decided: behaviour of river's trees at run time (restructuring, routing after learn_one, class sets).
"""
from .. import ir
from ..paths import walk
from ..report import AnalysisError
from .algebra import identical
from .common import const_value, new_items
from .drawlib import exact_range
from . import c06

META = {
    "explanation": "Structural rules on TreeStorage.update/_update_data_reservoirs/_delete_outdated_reservoirs, the two "
                   "leaf-id producers (token templates extracted from string concatenation / join terms and compared), "
                   "and TreeImputer.impute with its samplers inlined (argument bindings, provenance of the sampled value, "
                   "position of the fallback).",
    "trusted_base": ["river tree API: children / next / repr_split / branch_no / learn_one",
                     "an always-insert reservoir of length L keeps the newest point (C07, C09)"],
    "assumptions": [],
    "not_decided": "that every stale reservoir is gone after every update, that the newest point's leaf equals the leaf it is "
                   "routed to after learn_one, class sets of categorical predictions (run-time behaviour of river)",
}
MIN_INSTANCES = {"LEN": 2, "RESERVOIR": 4, "SWEEP": 2, "AGREE": 3, "IMPUTE": 3}
TS = "TreeStorage"
WRITER = "get_path_through_tree"
ENUM = "ixai.storage.tree_storage.get_all_tree_paths"


def check(run):
    prog = run.prog
    ts = prog.find_class(TS)
    ti = prog.find_class("TreeImputer")
    run.need(ts is not None and ti is not None, "anchor classes TreeStorage / TreeImputer vanished")
    _len(run, prog, ts)
    _reservoirs(run, prog, ts)
    _sweep(run, prog, ts)
    _tokens(run, prog, ts)
    _imputer(run, prog, ts, ti)
    # the always-insert request must be honoured by the reservoir class (constructor keeps p = 1, accept test U <= p)
    from . import c09
    c09.check(c06.FilterRun(run, {"FORMULA", "AGREE"}, {"FORMULA": "RESERVOIR", "AGREE": "RESERVOIR"}))


def _len(run, prog, ts):
    ls = prog.summarise(ts, "__len__")
    us = prog.summarise(ts, "update")
    init = prog.summarise(ts, "__init__")
    for n in ("__len__", "update", "__init__"):
        run.analysed_fn(f"{TS}.{n}")
    r = ls.ret
    ok = r[0] == "field0"
    run.check(ok, "LEN", "getter", f"{ls.path}:{ls.fn.lineno}", f"{TS}.__len__", f"len = {ir.show_nl(r)}",
              f"len(storage) must be the update counter; found {ir.show_nl(r)}", f"len = self.{r[1] if ok else '?'}")
    if not ok:
        return
    f = r[1]
    nxt = us.fields.get(f, r)
    same, info = identical(nxt, ("op", "+", r, ("const", 1)))
    run.check(same and const_value(init.fields.get(f, ("undef",))) == 0, "LEN", "counter", f"{us.path}:{us.fn.lineno}",
              f"{TS}.update", f"{f}' = {ir.show_nl(nxt)}",
              f"the length must start at 0 and grow by exactly one per update call on every path; {info if not same else ''}",
              f"{f}' = {f} + 1, initial 0")


def _reservoirs(run, prog, ts):
    init = prog.summarise(ts, "__init__")
    dr = init.fields.get("data_reservoirs")
    ok = dr is not None and dr[0] == "comp" and dr[1] == "dict" and not dr[6] and dr[4] == ("elem", dr[2]) and \
        dr[5][0] == "new" and dr[5][2] == "dict" and not dr[5][3] and dr[2] in (ir.site_loops(dr[5]) or ())
    why = ""
    if dr is not None and dr[0] == "comp" and dr[5][0] == "new" and dr[2] not in (ir.site_loops(dr[5]) or ()):
        why = "every feature is given the same inner dict object (reservoirs of different features overwrite and delete each other)"
    run.check(ok, "RESERVOIR", "per-feature-dicts", f"{init.path}:{init.fn.lineno}", f"{TS}.__init__",
              f"data_reservoirs = {ir.show_nl(dr)[:100] if dr else None}",
              f"every feature needs its own, initially empty, dict of leaf reservoirs: {why or (ir.show_nl(dr)[:120] if dr else 'missing')}",
              "data_reservoirs = {feature: {} for feature in feature_names} (fresh dict per feature)")
    s = prog.summarise(ts, "update")
    fq = f"{TS}.update"
    _, fn = prog.find_method(ts, "update")
    x = ("param", [a.arg for a in fn.args.args][1])
    geo = prog.find_class("GeometricReservoirStorage")
    run.need(geo is not None, "anchor class GeometricReservoirStorage vanished")
    index = {id(ev): i for i, (ev, _) in enumerate(walk(s.events))}
    cons = [(ev, ctx) for ev, ctx in walk(s.events) if isinstance(ev, ir.Construct) and ev.qual == geo.qual]
    run.need(cons, "TreeStorage.update never creates a leaf reservoir")
    cev, cctx = cons[0]
    pos, kw = list(cev.args), dict(cev.kwargs)
    size = kw.get("size", pos[0] if pos else None)
    p = kw.get("constant_probability", pos[1] if len(pos) > 1 else None)
    ok = size == ("field0", "_leaf_reservoir_length") and p is not None and const_value(p) is not None and const_value(p) >= 1
    run.check(ok, "RESERVOIR", "always-insert", f"{s.path}:{cev.line}", fq,
              f"reservoir(size={ir.show_nl(size) if size else None}, p={ir.show_nl(p) if p else None})",
              "leaf reservoirs must have the configured length and always insert (constant probability >= 1) so that the "
              f"newest point is kept; found size={ir.show_nl(size) if size else None}, p={ir.show_nl(p) if p else 'default 1/size'}",
              "GeometricReservoirStorage(size=leaf_reservoir_length, constant_probability=1)")
    stores = [(ev, ctx) for ev, ctx in walk(s.events) if isinstance(ev, ir.SubStore) and ev.value == cev.res]
    run.need(stores, "the new reservoir is not stored")
    sev, sctx = stores[0]
    leaf_id = sev.key
    guard = ("cmp", "not in", leaf_id, sev.cont)
    run.check(guard in sctx.guards, "RESERVOIR", "create-on-new-leaf", f"{s.path}:{sev.line}", fq,
              f"creation guard {ir.show_nl(sctx.guards[-1])[:100] if sctx.guards else None}",
              "a reservoir must be created exactly when the leaf id has no reservoir yet", "if leaf_id not in reservoirs: create")
    sweeps = [(ev, ctx) for ev, ctx in walk(s.events, structural=True) if isinstance(ev, ir.Inlined) and
              ev.qual.endswith("_delete_outdated_reservoirs")]
    ok = any(guard in ctx.guards for ev, ctx in sweeps)
    if ok:
        dels = [ev for ev, ctx in walk(s.events) if isinstance(ev, ir.Del)]
        ok = bool(dels) and all(index[id(d)] > index[id(sev)] for d in dels)
    run.check(ok, "RESERVOIR", "sweep-after-create", f"{s.path}:{sev.line}", fq, "outdated-reservoir sweep",
              "creating a reservoir for a new leaf id (the tree changed shape) must be followed on the same path by the "
              "sweep that drops reservoirs of leaves no longer in the tree", "create; then sweep")
    ins = [(ev, ctx) for ev, ctx in walk(s.events) if isinstance(ev, ir.Mut) and ev.method == "update" and
           ev.recv == ("sub", sev.cont, leaf_id)]
    ok = len(ins) == 1 and ins[0][0].args == (x,) and index[id(ins[0][0])] > index[id(sev)] and \
        guard not in ins[0][1].guards
    why = ""
    if len(ins) == 1 and ins[0][0].args != (x,):
        why = f"the reservoir receives {ir.show_nl(ins[0][0].args[0])[:80] if ins[0][0].args else None} instead of the complete point"
    elif len(ins) != 1:
        why = f"{len(ins)} insertions into the leaf reservoir"
    elif guard in ins[0][1].guards:
        why = "the point is only inserted when the reservoir was just created"
    run.check(ok, "RESERVOIR", "complete-point", f"{s.path}:{ins[0][0].line if ins else sev.line}", fq,
              f"insertion: {why or 'ok'}",
              f"every update must insert the complete observed point into the reservoir of its leaf: {why}",
              "reservoirs[leaf_id].update(x) with the complete point, on every path")
    learn = [ev for ev, ctx in walk(s.events) if isinstance(ev, ir.Call) and ev.method == "learn_one"]
    routed = [ev for ev, ctx in walk(s.events) if isinstance(ev, ir.Call) and ev.callee.endswith("walk_through_tree")]
    ok = len(learn) == 1 and routed and index[id(learn[0])] < index[id(routed[0])]
    run.check(ok, "RESERVOIR", "learn-before-route", f"{s.path}:{learn[0].line if learn else s.fn.lineno}", fq,
              "learn_one vs routing order", "the tree must learn the point before the point is routed to its leaf",
              "learn_one precedes the routing")


def _sweep(run, prog, ts):
    s = prog.summarise(ts, "_delete_outdated_reservoirs")
    fq = f"{TS}._delete_outdated_reservoirs"
    run.analysed_fn(fq)
    _, fn = prog.find_method(ts, "_delete_outdated_reservoirs")
    names = [a.arg for a in fn.args.args][1:]
    feat, rootp = ("param", names[0]), ("param", names[1])
    enum = [ev for ev, _ in walk(s.events) if isinstance(ev, ir.Call) and ev.callee == ENUM]
    dels = [(ev, ctx) for ev, ctx in walk(s.events) if isinstance(ev, ir.Del)]
    ok = len(enum) == 1 and enum[0].args[:1] == (rootp,) and len(enum[0].args) == 1 and not enum[0].kwargs and len(dels) == 1
    why = "" if ok else f"{len(enum)} enumerations / {len(dels)} deletions"
    if ok:
        dev, dctx = dels[0]
        res = ("sub", ("field0", "data_reservoirs"), feat)
        paths_forms = [enum[0].res] + [("new", "@", k, (enum[0].res,)) for k in ("set", "frozenset", "list", "tuple")]

        def stale_test(c, key):
            return c[0] == "cmp" and c[1] == "not in" and c[2] == key and ir.strip_sites(c[3]) in [ir.strip_sites(p) for p in paths_forms]

        def keys_of(t):
            """t enumerates the keys of the feature's reservoir dict"""
            return t == res or (t[0] == "res" and t[2] == ".keys" and t[3] == (res,))
        lp = dctx.loops[-1] if dctx.loops else None
        ok = dev.cont == res and lp is not None and dev.key == ("elem", lp.lid)
        if not ok:
            why = "the deletion is not a per-id deletion from the feature's reservoirs"
        else:
            it = lp.iter
            # (a) copy of all ids, deletion guarded by the stale test
            form_a = it[0] == "new" and it[2] in ("list", "tuple", "set") and len(it[3]) == 1 and keys_of(it[3][0]) and \
                len(dctx.guards) == 1 and stale_test(dctx.guards[0], dev.key)
            # (b) materialised list of the stale ids, unconditional deletion
            form_b = it[0] == "comp" and it[1] in ("list", "set") and keys_of(it[3]) and it[5] == ("elem", it[2]) and \
                len(it[6]) == 1 and stale_test(it[6][0], ("elem", it[2])) and not dctx.guards
            ok = form_a or form_b
            if not ok:
                live = keys_of(it)
                why = ("the loop iterates the live dict while deleting from it" if live else
                       f"ids are deleted under {ir.show_nl(dctx.guards[-1])[:100] if dctx.guards else ir.show_nl(it)[:100]}, "
                       f"not exactly when they are missing from the enumerated tree paths")
    run.check(ok, "SWEEP", "predicate", f"{s.path}:{s.fn.lineno}", fq, f"sweep: {why or 'ok'}",
              f"the sweep must delete exactly the reservoir ids that are not among the current tree's enumerated paths, "
              f"iterating over a copy of the ids: {why}", "for id in list(ids): if id not in all_paths: del reservoirs[id]")
    e = prog.summarise_func(ENUM)
    run.analysed_fn("get_all_tree_paths")
    _, efn = prog.func(ENUM)
    defaults = [d for d in efn.args.defaults]
    import ast
    mutable = [d for d in defaults if isinstance(d, (ast.List, ast.Dict, ast.Set, ast.Call))]
    run.check(not mutable, "SWEEP", "fresh-accumulator", f"{e.path}:{efn.lineno}", "get_all_tree_paths", "accumulator default",
              "the path accumulator must be fresh per top-level call (a mutable default keeps ids of old tree shapes, so no "
              "reservoir is ever outdated)", "paths=None -> new list per call")


def _tok(t, node, out, branch_terms):
    """Flatten a string-building term into tokens."""
    if t[0] == "op" and t[1] == "+":
        _tok(t[2], node, out, branch_terms)
        _tok(t[3], node, out, branch_terms)
    elif t[0] == "const" and isinstance(t[1], str):
        if t[1]:
            out.append(("lit", t[1]))
    elif t[0] == "res" and t[2] == ".join" and len(t[3]) == 2 and t[3][0][0] == "const" and t[3][1][0] == "tuple":
        sep = t[3][0][1]
        for i, it in enumerate(t[3][1][1]):
            if i and sep:
                out.append(("lit", sep))
            _tok(it, node, out, branch_terms)
    elif t[0] == "fn" and t[1] == "str" and len(t[2]) == 1:
        a = t[2][0]
        if a == node:
            out.append(("str", "node"))
        elif a == ("attr", node, "repr_split"):
            out.append(("str", "split"))
        elif a in branch_terms or (a[0] == "res" and a[2] == ".branch_no" and a[3][0] == node):
            out.append(("str", "branch"))
        else:
            out.append(("str", ir.show_nl(a)))
    elif t[0] in ("mu", "param") or (t[0] == "gate"):
        out.append(("prefix",) if t[0] != "gate" else ("gate", ir.show_nl(t)[:40]))
    else:
        out.append(("other", ir.show_nl(t)[:60]))


def _merge_lits(toks):
    out = []
    for t in toks:
        if t[0] == "lit" and out and out[-1][0] == "lit":
            out[-1] = ("lit", out[-1][1] + t[1])
        else:
            out.append(t)
    return out


def _strip_prefix(toks):
    toks = [t for t in toks if t != ("lit", "")]
    if toks and toks[0] == ("prefix",):
        toks = toks[1:]
    return toks


def _tokens(run, prog, ts):
    from .algebra import arms
    from .common import list_build
    w = prog.summarise(ts, WRITER)
    fqw = f"{TS}.{WRITER}"
    run.analysed_fn(fqw)
    loops = [ev for ev, _ in walk(w.events, structural=True) if isinstance(ev, ir.Loop) and not ev.comp]
    run.need(len(loops) == 1, "leaf-id writer is not a single loop over the walk through the tree")
    L = loops[0]
    node = ("elem", L.lid)
    walk_ok = any(t[0] == "res" and t[2].endswith("walk_through_tree") for t in ir.subterms(L.iter))
    run.check(walk_ok, "AGREE", "writer.walk", f"{w.path}:{L.line}", fqw, f"writer iterates {ir.show_nl(L.iter)[:80]}",
              "the leaf id must be built along walk_through_tree of the point", "id built along the walk")
    r = w.ret
    segment = None
    if r[0] == "eta" and r[1] == L.lid and ("self." not in r[2]):
        init, nxt = L.carried.get(r[2], (None, None))
        if init == ("const", ""):
            segment = nxt
    elif r[0] == "res" and r[2] == ".join" and len(r[3]) == 2 and r[3][0] == ("const", ""):
        lb = list_build(r[3][1], w.events)
        if lb is not None and len(lb.entries) == 1 and lb.entries[0][1] is not None and \
                [l for l in lb.entries[0][1].loops] == [L] and not lb.entries[0][1].guards:
            segment = lb.entries[0][0]
    run.need(segment is not None, f"leaf-id writer has an unrecognised shape: {ir.show_nl(r)[:100]}")
    w_templates = {}
    for facts, t in arms(segment):
        toks = []
        _tok(t, node, toks, ())
        kind = "branch" if any(f == ("fn", "hasattr", (node, ("const", "repr_split"))) for f in facts) else "leaf"
        w_templates[kind] = _strip_prefix(_merge_lits(toks))
    e = prog.summarise_func(ENUM)
    _, efn = prog.func(ENUM)
    enode = ("param", efn.args.args[0].arg)
    e_templates = {}
    for ev, ctx in walk(e.events):
        if isinstance(ev, ir.Call) and ev.callee == ENUM:
            wp = dict(ev.kwargs).get("walked_path", ev.args[1] if len(ev.args) > 1 else None)
            if wp is not None:
                toks = []
                lp = ctx.loops[-1] if ctx.loops else None
                branch = (("tget", ("elem", lp.lid), 0),) if lp is not None else ()
                _tok(wp, enode, toks, branch)
                e_templates["branch"] = _strip_prefix(_merge_lits(toks))
        if isinstance(ev, ir.Mut) and ev.method == "append" and ev.args:
            toks = []
            _tok(ev.args[0], enode, toks, ())
            e_templates["leaf"] = _strip_prefix(_merge_lits(toks))
    for kind in ("branch", "leaf"):
        a, b = w_templates.get(kind), e_templates.get(kind)
        run.check(a is not None and a == b, "AGREE", f"template.{kind}", f"{w.path}:{L.line}", fqw,
                  f"{kind}: writer {a} vs enumerator {b}",
                  f"the id written for a visited {kind} node and the id enumerated for it differ: writer {a}, enumerator {b}; "
                  f"every reservoir would look outdated (or none would)", f"{kind} template {a}")


def _imputer(run, prog, ts, ti):
    fr = c06.FilterRun(run, {"MERGE", "KEYS", "COUNT", "NOMUT"}, {"MERGE": "IMPUTE", "KEYS": "IMPUTE", "COUNT": "IMPUTE", "NOMUT": "IMPUTE"})
    c06._imputer(fr, prog, ti)
    s = prog.summarise(ti, "impute")
    fq = "TreeImputer.impute"
    from .imputerlib import impute_params
    subset, x, n = impute_params(prog, ti)
    # samplers get the explained instance itself
    for ev, ctx in walk(s.events, structural=True):
        if isinstance(ev, ir.Inlined) and ev.qual in ("TreeImputer._sample_from_storages", "TreeImputer._sample") and not ctx.inl:
            xi = ev.params.get("x_i")
            run.check(xi == x, "IMPUTE", f"sampler-input.{ev.qual.split('.')[1]}", f"{s.path}:{ev.line}", fq,
                      f"{ev.qual} gets x_i = {ir.show_nl(xi)[:60] if xi else None}",
                      f"the samplers must route and condition on the explained instance itself; {ev.qual} receives "
                      f"{ir.show_nl(xi)[:100] if xi else None} (e.g. a partially imputed copy routes later features to the wrong leaf)",
                      f"{ev.qual}(feature, x_i)")
    st = prog.summarise(ti, "_sample_from_storages")
    fq2 = "TreeImputer._sample_from_storages"
    run.analysed_fn(fq2)
    _, sfn = prog.find_method(ti, "_sample_from_storages")
    names = [a.arg for a in sfn.args.args][1:]
    feat, xi = ("param", names[0]), ("param", names[1])
    writer = [ev for ev, _ in walk(st.events) if isinstance(ev, ir.Call) and ev.method == WRITER]
    ok = len(writer) == 1 and len(writer[0].args) == 2 and writer[0].args[1] == xi
    run.check(ok, "AGREE", "imputer-id", f"{st.path}:{st.fn.lineno}", fq2, "leaf id of the instance",
              "TreeImputer must compute the leaf id with the storage's own id writer on the explained instance",
              "leaf_id = storage.get_path_through_tree(root, x_i)")
    tries = [ev for ev, _ in walk(st.events, structural=True) if isinstance(ev, ir.Try)]
    good = False
    why = "no try/except KeyError around the reservoir lookup"
    if len(tries) == 1 and ok:
        t = tries[0]
        draws = [ev for ev, _ in walk(t.body) if isinstance(ev, ir.Draw)]
        gd = [ev for ev, _ in walk(t.body) if isinstance(ev, ir.Call) and ev.method == "get_data"]
        fb = [ev for h in t.handlers for ev, _ in walk(h.body, structural=True) if isinstance(ev, ir.Inlined) and ev.qual == "TreeImputer._sample"]
        body_fb = [ev for ev, _ in walk(t.body, structural=True) if isinstance(ev, ir.Inlined) and ev.qual == "TreeImputer._sample"]
        if len(gd) == 1 and len(draws) == 1:
            rows = ("tget", gd[0].res, 0)
            res_ok = gd[0].recv == ("sub", ("sub", ("attr", ("field0", "storage_object"), "data_reservoirs"), feat), writer[0].res)
            verdict, info = exact_range(draws[0].res, ("fn", "len", (rows,)))
            keyerr = len(t.handlers) == 1 and t.handlers[0].exc == ("KeyError",)
            good = res_ok and verdict is True and keyerr and len(fb) == 1 and not body_fb
            why = ("the reservoir is not the one of the routed leaf" if not res_ok else
                   f"row index: {info}" if verdict is not True else
                   "the model fallback is not confined to the KeyError handler")
        else:
            why = f"{len(gd)} reservoir reads / {len(draws)} draws in the lookup"
    run.check(good, "IMPUTE", "storage-value", f"{st.path}:{st.fn.lineno}", fq2, f"storage mode: {why if not good else 'ok'}",
              f"in storage mode the value must be row[f] of a uniformly drawn row of the routed leaf's reservoir, falling back "
              f"to the tree's own prediction only when that leaf has no reservoir: {why}",
              "reservoirs[f][leaf_id].get_data()[0][uniform idx][f]; except KeyError -> model sample")


_T = "ixai/storage/tree_storage.py"
_I = "ixai/imputer/tree_imputer.py"
WITNESSES = [
    ("length counted per feature", [(_T, "                self.performances[feature_name].update(y_i, pred_i)\n        self._seen_samples += 1\n", "                self.performances[feature_name].update(y_i, pred_i)\n                self._seen_samples += 1\n")]),
    ("reservoir gets the reduced point", [(_T, "        data_reservoir[leaf_id].update(x)\n", "        data_reservoir[leaf_id].update(x_i)\n")]),
    ("sweep dropped", [(_T, "            self._delete_outdated_reservoirs(feature_name, root_node)\n", "")]),
    ("sweep predicate inverted", [(_T, "            if reservoirs_label not in all_leafs:", "            if reservoirs_label in all_leafs:")]),
    ("writer uses another separator", [(_T, "walked_path += \"|\" + str(stop.repr_split) + \"|\" + str(stop.branch_no(x_i))", "walked_path += \"/\" + str(stop.repr_split) + \"/\" + str(stop.branch_no(x_i))")]),
    ("enumerator omits the split", [(_T, "\"|\".join((str(node), str(node.repr_split), str(branch_no)))", "\"|\".join((str(node), str(branch_no)))")]),
    ("leaf reservoir with default probability", [(_T, "store_targets=False, constant_probability=1.0)", "store_targets=False)")]),
    ("reservoir length constant", [(_T, "size=self._leaf_reservoir_length,", "size=10,")]),
    ("mutable default accumulator", [(_T, "def get_all_tree_paths(node, walked_path: str = '', paths=None) -> List[str]:\n    if paths is None:\n        paths = []\n", "def get_all_tree_paths(node, walked_path: str = '', paths: List[str] = []) -> List[str]:\n")]),
    ("imputer routes a partially imputed point", [(_I, "            sampled_values = {}\n            for feature_name in feature_subset:\n                if self.use_storage:\n                    sampled_value = self._sample_from_storages(feature_name, x_i, n_samples=n_samples)",
                                                   "            sampled_values = {}\n            for feature_name in feature_subset:\n                if self.use_storage:\n                    sampled_value = self._sample_from_storages(feature_name, {**x_i, **sampled_values}, n_samples=n_samples)")]),
    ("fallback on every lookup", [(_I, "            sampled_feature_value = x_sampled[feature_name]\n        except KeyError:", "            sampled_feature_value = self._sample(feature_name=feature_name, x_i=x_i)\n        except KeyError:")]),
    ("insert only into new reservoirs", [(_T, "            self._delete_outdated_reservoirs(feature_name, root_node)\n        data_reservoir[leaf_id].update(x)\n", "            self._delete_outdated_reservoirs(feature_name, root_node)\n            data_reservoir[leaf_id].update(x)\n")]),
    ("shared inner reservoir dict", [(_T, "self.data_reservoirs = {feature: {} for feature in self.feature_names}", "self.data_reservoirs = dict.fromkeys(self.feature_names, {})")]),
    ("route before learning", [(_T, "                feature_model.learn_one(x_i, y_i)\n                self._update_data_reservoirs(feature_name, x_i, x)\n", "                self._update_data_reservoirs(feature_name, x_i, x)\n                feature_model.learn_one(x_i, y_i)\n")]),
]
SILENT = [
    ("writer via f-string-free join", [(_T, "walked_path += \"|\" + str(stop.repr_split) + \"|\" + str(stop.branch_no(x_i))", "walked_path += \"|\" + \"|\".join((str(stop.repr_split), str(stop.branch_no(x_i))))")]),
]
