"""Case-splitting comparison of IR terms against reference terms over the reals.

`identical(cand, ref, ...)` splits the candidate along its gates (γ nodes), turns the branch facts of
each arm into substitutions where they are equalities (x == c, `not x` => x = 0, a - b falsy => a = b,
a*b falsy => a = 0 or b = 0) and leaves open conditions (x > c, x truthy) unconstrained -- two
different rational functions cannot agree on an open set -- then compares in the rational-function
normal form of sa.poly.  Returns (True, arms) or (False, description of the refuting arm).
"""
from .. import ir
from ..poly import Normaliser, OutOfDomain
from .common import substitute, fold_minmax, normalise_not, const_value

MAX_ARMS = 128


def first_gate(t):
    for s in ir.subterms(t):
        if s[0] == "gate":
            return s
    return None


def arms(t, facts=()):
    """[(facts, ungated term)] for every consistent resolution of the gates in t. Gates that occur inside
    the branch facts themselves (a test on a value that was itself selected by a branch) are resolved
    jointly, so every returned fact is gate-free."""
    g = first_gate(t)
    if g is None:
        for f in facts:
            g = first_gate(f)
            if g is not None:
                break
    if g is None:
        if any(x == ir.RAISES for x in ir.subterms(t)) or any(x == ir.RAISES for f in facts for x in ir.subterms(f)):
            return []               # this resolution of the branches raises: no value
        fs = set(facts)
        if any(ir.negate(f) in fs for f in facts):
            return []
        return [(facts, t)]
    out = []
    for lit, pick in ((g[1], g[2]), (ir.negate(g[1]), g[3])):
        if ir.negate(lit) in facts:
            continue
        sub = {g: pick}
        t2 = ir.assume(substitute(t, sub), list(facts) + [lit])
        facts2 = tuple(ir.assume(substitute(f, sub), [x for x in facts if x != f] + [lit]) for f in facts) + (lit,)
        out += arms(t2, facts2)
        if len(out) > MAX_ARMS:
            raise OutOfDomain("too many gate arms")
    return out


def _atomic(t):
    return t[0] in ("param", "field0", "mu", "eta", "elem", "res", "draw", "sub", "attr", "tget")


def fact_substs(lit):
    """Substitution alternatives implied by a branch literal: list of dicts (a disjunction);
    [{}] means 'no equality information' (open condition)."""
    lit = normalise_not(lit)
    if lit[0] == "cmp" and lit[1] in ("==", "is"):
        a, b = lit[2], lit[3]
        if _atomic(a) and not _atomic(b):
            return [{a: b}]
        if _atomic(b) and not _atomic(a):
            return [{b: a}]
        if _atomic(a) and _atomic(b):
            return [{a: b}]
        if const_value(b) == 0:
            return falsy(a)
        if const_value(a) == 0:
            return falsy(b)
        return [{("op", "-", a, b): ("const", 0)}]
    if lit[0] == "not":
        return falsy(lit[1])
    if lit[0] == "and":
        outs = [{}]
        for c in lit[1]:
            outs = [{**o, **s} for o in outs for s in fact_substs(c)]
        return outs
    if lit[0] == "or":
        out = []
        for c in lit[1]:
            out += fact_substs(c)
        return out
    return [{}]


def falsy(t):
    """Substitutions under which the numeric term t is 0 (falsy)."""
    if t[0] == "op" and t[1] == "*":
        return falsy(t[2]) + falsy(t[3])
    if t[0] == "op" and t[1] == "-":
        a, b = t[2], t[3]
        if _atomic(a):
            return [{a: b, t: ("const", 0)}]
        if _atomic(b):
            return [{b: a, t: ("const", 0)}]
    if t[0] == "cmp":
        return fact_substs(ir.negate(t))
    if t[0] in ("and", "or", "not"):
        return fact_substs(ir.negate(t))
    return [{t: ("const", 0)}]


def decide(lit, bounds):
    """Truth value of a comparison literal when it is determined by constants and by lower bounds on
    counters (bounds: {term: lower bound}); None if undetermined. Affine reasoning on one atom only."""
    from fractions import Fraction
    lit = normalise_not(lit)
    if not (isinstance(lit, tuple) and lit and lit[0] == "cmp" and lit[1] in ("<", "<=", ">", ">=", "==", "!=")):
        return None
    names = {t: f"b{i}" for i, t in enumerate(bounds)}
    norm = Normaliser(names)
    try:
        d = norm.rat(("op", "-", lit[2], lit[3]))
    except (OutOfDomain, ZeroDivisionError):
        return None
    if not d.d.is_const() or d.d.const_value() == 0:
        return None
    k = d.d.const_value()
    monos = set(d.n.t)
    allowed = {()} | {((n, 1),) for n in names.values()}
    if not monos <= allowed:
        return None
    c0 = d.n.t.get((), Fraction(0)) / k
    lo, hi = c0, c0            # range of d over the bounded atoms
    for t, n in names.items():
        c1 = d.n.t.get(((n, 1),), Fraction(0)) / k
        if c1 > 0:
            lo += c1 * bounds[t]
            hi = None if hi is None else None
        elif c1 < 0:
            hi = None if hi is None else hi + c1 * bounds[t]
            lo = None
        if c1 > 0:
            hi = None
    op = lit[1]
    def known(cond_true, cond_false):
        return True if cond_true else (False if cond_false else None)
    if op == "<":
        return known(hi is not None and hi < 0, lo is not None and lo >= 0)
    if op == "<=":
        return known(hi is not None and hi <= 0, lo is not None and lo > 0)
    if op == ">":
        return known(lo is not None and lo > 0, hi is not None and hi <= 0)
    if op == ">=":
        return known(lo is not None and lo >= 0, hi is not None and hi < 0)
    if op == "==":
        return known(lo is not None and hi is not None and lo == hi == 0, (lo is not None and lo > 0) or (hi is not None and hi < 0))
    if op == "!=":
        r = decide(("cmp", "==", lit[2], lit[3]), bounds)
        return None if r is None else not r
    return None


def identical(cand, ref, atoms=None, pre_subst=None, norm_factory=None, bounds=None):
    """Is cand == ref as real functions on every arm? ref may be a term or a callable
    (normaliser, substitution dict) -> Rat for references built in the Rat domain.
    bounds: {counter term: lower bound}; arms whose branch facts are false under them are infeasible."""
    described = []
    for facts, t in arms(cand):
        if any(decide(f, bounds or {}) is False for f in facts):
            continue
        alts = [{}]
        for lit in facts:
            alts = [{**o, **s} for o in alts for s in fact_substs(lit)]
        for sub in alts:
            t2 = t
            for _ in range(3):
                t2 = substitute(t2, sub)
            t2 = fold_minmax(t2)
            norm = Normaliser(atoms, pre_subst)
            r_ref = ref(norm, sub) if callable(ref) else norm.rat(fold_minmax(_apply(ref, sub)))
            r_cand = norm.rat(t2)
            if not norm.same(r_cand, r_ref):
                where = " and ".join(ir.show_nl(f) for f in facts) or "unconditionally"
                return False, f"{where}: value is {ir.show_nl(t2)} but the reference is {r_ref!r}"
            described.append(facts)
    return True, described


def _apply(t, sub):
    for _ in range(3):
        t = substitute(t, sub)
    return t


def resolve_minmax(t, counter, lower):
    """Resolve max/min subterms whose arguments are affine in `counter` given counter >= lower."""
    from fractions import Fraction
    if not isinstance(t, tuple) or not t:
        return t
    t = tuple(resolve_minmax(x, counter, lower) if isinstance(x, tuple) else x for x in t)
    if t[0] == "fn" and t[1] in ("max", "min") and len(t[2]) == 2:
        a, b = t[2]
        norm = Normaliser({counter: "n"})
        try:
            d = norm.rat(("op", "-", a, b))
        except OutOfDomain:
            return t
        if d.d.is_const() and d.n.atoms() <= {"n"}:
            c0 = d.n.t.get((), Fraction(0)) / d.d.const_value()
            c1 = d.n.t.get((("n", 1),), Fraction(0)) / d.d.const_value()
            if set(d.n.t) <= {(), (("n", 1),)}:
                at_lower = c0 + c1 * lower
                if c1 >= 0 and at_lower >= 0:
                    return a if t[1] == "max" else b
                if c1 <= 0 and at_lower <= 0:
                    return b if t[1] == "max" else a
    return t


def defined_value(t):
    """Fraction value of a constant term if it is defined over the reals (no division by zero),
    the string 'sym' if it is a defined non-rational constant (e.g. sqrt(2)), else None."""
    try:
        norm = Normaliser()
        r = norm.rat(fold_minmax(t))
    except (OutOfDomain, ZeroDivisionError):
        return None
    v = r.const_value()
    if v is not None:
        return v
    if r.d.is_zero():
        return None
    return "sym"
