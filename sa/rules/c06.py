"""C06 -- imputers replace exactly the requested features with genuine background values.

For every class below BaseImputer (discovered; siblings checked by the same rules):
 MERGE  every model evaluation gets `instance overlaid by sampled` (the instance first, so its key order is
        kept; sampled values override only their own keys);
 KEYS   the sampled dict is keyed by exactly the elements of the requested subset (no filter, no other key);
 VALUE  DefaultImputer: values[f]; MarginalImputer: row[f] of a row F[idx] of the storage's *current*
        get_data()[0], idx uniform on [0, len(F)) for the same F, one idx per inner sample under 'joint'
        (shared by all features), one per feature under 'product'; strategy selected by == 'joint';
 COUNT  exactly n_samples predictions are returned, each the result of a model evaluation;
 NOMUT  the instance, the subset and the stored rows are never mutated (fresh copies exempt).
"""
from .. import ir
from ..paths import walk, root, strip_gates
from ..report import AnalysisError
from .common import calls, dict_build, list_build, const_value
from .drawlib import exact_range, is_draw
from .imputerlib import (imputer_classes, impute_params, model_field, is_copy_of, merge_form, subset_iter,
                         protected_mutations)

META = {
    "explanation": "MERGE/KEYS/VALUE/COUNT/NOMUT over the effect summary of impute() of every BaseImputer subclass "
                   "(helpers inlined): shape of the model-input term after idiom normalisation, key provenance of the "
                   "sampled dict, provenance and draw nesting of background values, length of the returned list, and "
                   "an alias analysis showing no mutation reaches the instance, the subset or stored rows.",
    "trusted_base": ["dict display/merge semantics", "random.randrange(n) is uniform on 0..n-1",
                     "the model callback does not mutate its input"],
    "assumptions": ["n_samples >= 1", "feature_subset is an iterable of keys present in the background"],
}
META["explanation"] += ' Also COPY (copy / pickle hooks of the imputers keep every attribute and the sharing of the storage) and the type of what the strategy field holds.'
META["explanation"] += ' Round 5: dict(x, **sampled) needs string feature names (MERGE keys-as-keywords); Enum members as strategy values. HAZARD: constructs that do not mean what they look like, met in the analysed code (defaults evaluated once, class-level containers changed through self, dict.fromkeys with a shared mutable value, late-binding lambdas, truth value of objects that define __len__) are reported by every check.'
MIN_INSTANCES = {"MERGE": 3, "KEYS": 3, "COUNT": 3, "NOMUT": 3, "VALUE": 3, "COPY": 3}


def check(run):
    prog = run.prog
    classes = imputer_classes(prog)
    run.need(len(classes) >= 3, f"only {len(classes)} imputer classes discovered (expected >= 3)")
    from .common import ctor_wiring
    for cls in classes:
        _imputer(run, prog, cls)
        ctor_wiring(run, prog, cls, "CTOR")         # strategy / storage / defaults as configured
    from .copylib import copy_protocol
    for cls in classes:
        copy_protocol(run, prog, cls)               # a copied explainer's imputer still reads the copied storage


class FilterRun:
    """Forwards obligations of selected rules only (rules=None: all), renamed, so that one property's
    check can include the clauses of another property it depends on."""
    def __init__(self, run, rules, rename=None, prefix=None, only=None):
        self._run, self._rules, self._rename, self._prefix = run, (set(rules) if rules is not None else None), rename or {}, prefix
        self._only = only           # optional predicate on (rule, instance): forward matching obligations only

    def _wanted(self, rule, instance):
        return (self._rules is None or rule in self._rules) and (self._only is None or self._only(rule, instance))

    def __getattr__(self, name):
        return getattr(self._run, name)

    def _name(self, rule):
        if self._prefix:
            return f"{self._prefix}"
        return self._rename.get(rule, rule)

    def _inst(self, rule, inst):
        return f"{rule}:{inst}" if self._prefix else inst

    def need(self, cond, msg):
        # an anchor requirement of the included property: without it the included clauses cannot be evaluated
        self._run.need(cond, msg)

    def ok(self, rule, instance, detail=""):
        if self._wanted(rule, instance):
            self._run.ok(self._name(rule), self._inst(rule, instance), detail)

    def fail(self, rule, instance, *a, **k):
        if self._wanted(rule, instance):
            self._run.fail(self._name(rule), self._inst(rule, instance), *a, **k)

    def check(self, cond, rule, instance, *a, **k):
        if self._wanted(rule, instance):
            return self._run.check(cond, self._name(rule), self._inst(rule, instance), *a, **k)
        return bool(cond)


def depends_on(run, pid, rules=None, only=None):
    """Include the obligations of property `pid` (optionally only some rules / instances) under the rule name
    DEP-<pid>."""
    import importlib
    if isinstance(run, FilterRun):
        return          # inside an included check: its own dependencies are reported under other rule names, which the
                        # including filter drops anyway (and dependencies may be mutual)
    mod = importlib.import_module(f"sa.rules.{pid.lower()}")
    mod.check(FilterRun(run, rules, prefix=f"DEP-{pid}", only=only))


def _imputer(run, prog, cls):
    s = prog.summarise(cls, "impute")
    fq = f"{cls.name}.impute"
    run.analysed_fn(fq)
    subset, x, n = impute_params(prog, cls)
    mf = model_field(prog, cls)
    mcalls = calls(s.events, callee=f"self.{mf}")
    run.need(mcalls, f"{fq} never evaluates the model")
    run.analysed["call_sites"] += len(mcalls)
    rng = ("fn", "range", (n,))
    for ev, ctx in mcalls:
        arg = ev.args[0] if ev.args else None
        mfm = merge_form(arg, s.events) if arg is not None else None
        if mfm is None:
            why = ""
            if arg == x:
                why = " (the instance object itself is passed: imputed values would have to be written into it)"
            run.fail("MERGE", f"{cls.name}.input", f"{s.path}:{ev.line}", fq, f"model input {ir.show_nl(arg)[:140] if arg else None}",
                     f"the model input must be the instance overlaid by the sampled values{why}; found "
                     f"{ir.show_nl(arg)[:200] if arg else None}")
            continue
        base, overlay = mfm
        if arg[0] == "new" and arg[2] == "dict" and len(arg[3]) == 2 and arg[3][1][0] == "kw" and arg[3][1][1] == "**":
            # dict(a, **b) passes the entries of b as keyword arguments: every key of b must be a str
            run.fail("MERGE", f"{cls.name}.keys-as-keywords", f"{s.path}:{ev.line}", fq, f"model input {ir.show_nl(arg)[:120]}",
                     "dict(x, **sampled) hands the sampled values over as keyword arguments: feature names that are not "
                     "strings (int / float names are allowed) raise `TypeError: keywords must be strings`; "
                     "`{**x, **sampled}` merges any keys")
            continue
        if not is_copy_of(base, x):
            rev = any(is_copy_of(o, x) for o in strip_gates(overlay))
            run.fail("MERGE", f"{cls.name}.input", f"{s.path}:{ev.line}", fq, f"merge base {ir.show_nl(base)[:120]}",
                     ("the instance overrides the sampled values (merge order reversed)" if rev else
                      f"the merge must start from the explained instance itself (all its features, in its key order); it "
                      f"starts from {ir.show_nl(base)[:160]}"))
            continue
        run.ok("MERGE", f"{cls.name}.input", f"model input = {{**{x[1]}, **sampled}} at line {ev.line}")
        # KEYS / VALUE per alternative of the overlay
        alts = _overlay_alts(overlay)
        for cond, alt in alts:
            db = dict_build(alt, s.events)
            if db is None:
                run.fail("KEYS", f"{cls.name}.keys", f"{s.path}:{ev.line}", fq, f"sampled = {ir.show_nl(alt)[:120]}",
                         f"the sampled values are not a dict built over the requested subset: {ir.show_nl(alt)[:200]}")
                continue
            cases = _by_strategy(db, cond)
            if len(cases) > 1:
                for cond_m, db_m in cases:
                    _keys_and_values(run, prog, cls, s, fq, db_m, cond_m, subset, x, n, ctx, ev, alt)
                continue
            _keys_and_values(run, prog, cls, s, fq, db, cond, subset, x, n, ctx, ev, alt)
    _count(run, prog, cls, s, fq, mf, n, rng)
    _nomut(run, prog, cls, s, fq, x, subset)


def _strategy_atom(t):
    return t[0] == "cmp" and t[1] in ("==", "is") and ("const", "joint") in (t[2], t[3]) and \
        any(x[0] == "field0" for x in (t[2], t[3]))


def _by_strategy(db, cond):
    """The dict build seen under each sampling strategy when the strategy is not chosen between two dict values but
    inside one build (guards around the entries, selections inside the values): [(condition, DictBuild)]."""
    from .boolalg import literal
    from .common import DictBuild
    if any(_strategy_atom(literal(c)[0]) for c in cond):
        return [(cond, db)]
    atoms = []
    for key, val, ectx, eev in db.entries:
        for g in (ectx.guards if ectx is not None else ()):
            a, _ = literal(g)
            if _strategy_atom(a) and a not in atoms:
                atoms.append(a)
        for t in ir.subterms(val):
            if _strategy_atom(t) and t not in atoms:
                atoms.append(t)
    if len(atoms) != 1:
        return [(cond, db)]
    atom = atoms[0]
    out = []
    for pol in (True, False):
        lit = atom if pol else ir.negate(atom)
        entries, over, lid = [], None, None
        for key, val, ectx, eev in db.entries:
            guards = ectx.guards if ectx is not None else ()
            if any(literal(g) == (atom, not pol) for g in guards):
                continue                # an entry written only under the other strategy
            entries.append((key, ir.assume(val, [lit]), ectx, eev))
            if key[0] == "elem" and ectx is not None:
                for l in ectx.loops:
                    if l.lid == key[1]:
                        over, lid = l.iter, l.lid
        if db.kind == "comp":
            over, lid = db.over, db.lid
        out.append((tuple(cond) + (lit,), DictBuild(db.term, entries, over, lid, db.kind, db.init_items)))
    return out


def _keys_and_values(run, prog, cls, s, fq, db, cond, subset, x, n, ctx, ev, alt):
    ok = True
    how = subset_iter(db.over, subset) if db.over is not None else None
    if how is None:
        ok = False
        run.fail("KEYS", f"{cls.name}.keys", f"{s.path}:{ev.line}", fq,
                 f"keys range over {ir.show_nl(db.over) if db.over else 'nothing'}",
                 f"the sampled dict must be keyed by exactly the requested subset; its keys range over "
                 f"{ir.show_nl(db.over) if db.over else 'no loop'}")
    if db.kind == "comp" and alt[6]:
        ok = False
        run.fail("KEYS", f"{cls.name}.keys", f"{s.path}:{ev.line}", fq, f"filtered keys {ir.show_nl(alt[6][0])}",
                 f"requested features are filtered by `{ir.show_nl(alt[6][0])}`")
    if db.kind == "accum" and db.init_items:
        ok = False
        run.fail("KEYS", f"{cls.name}.keys", f"{s.path}:{ev.line}", fq, "sampled dict pre-populated",
                 "the sampled dict starts with foreign entries")
    for key, val, ectx, eev in db.entries:
        if key != ("elem", db.lid):
            ok = False
            run.fail("KEYS", f"{cls.name}.keys", f"{s.path}:{eev.line if eev else ev.line}", fq,
                     f"foreign key {ir.show_nl(key)}", f"a key other than the subset element is written: {ir.show_nl(key)}")
        if ectx is not None and ectx.guards and any(g not in ctx.guards for g in ectx.guards
                                                     if not _is_mode_guard(g)):
            extra = [g for g in ectx.guards if g not in ctx.guards and not _is_mode_guard(g)]
            if extra and not _selects_source(extra):
                ok = False
                run.fail("KEYS", f"{cls.name}.keys", f"{s.path}:{eev.line}", fq,
                         f"conditional entry under {ir.show_nl(extra[0])}",
                         f"a requested feature is only imputed when {ir.show_nl(extra[0])}")
    if ok:
        run.ok("KEYS", f"{cls.name}.keys", f"sampled dict keyed by the subset element over {ir.show_nl(db.over)}")
    _values(run, prog, cls, s, fq, db, cond, subset, x, n, ctx, ev)


def _is_mode_guard(g):
    from .boolalg import literal
    a, _ = literal(g)
    return a[0] == "field0" or (a[0] == "cmp" and a[2][0] == "field0" and a[3][0] == "const")


def _selects_source(extra):
    return all(g[0] in ("handler",) or _is_mode_guard(g) for g in extra)


def _overlay_alts(t, cond=()):
    if t[0] == "gate":
        return _overlay_alts(t[2], cond + (t[1],)) + _overlay_alts(t[3], cond + (ir.negate(t[1]),))
    return [(cond, t)]


def _values(run, prog, cls, s, fq, db, cond, subset, x, n, mctx, mev):
    name = cls.name
    if name == "DefaultImputer":
        init = prog.summarise(cls, "__init__")
        _, ifn = prog.find_method(cls, "__init__")
        vparam = ("param", [a.arg for a in ifn.args.args][2])
        vf = next((f for f, t in init.fields.items() if t == vparam), None)
        if vf is None:
            # the defaults are merged into a container that is not created by this constructor call
            shared = [k.class_attrs and n for k in prog.mro(cls) for n in k.class_attrs]
            for ev, _ in walk(init.events):
                if isinstance(ev, (ir.Call, ir.Mut)) and getattr(ev, "method", None) in ("update", "__ior__", "setdefault") \
                        and vparam in [a for a in ev.args]:
                    tgt = ev.callee[5:] if isinstance(ev, ir.Call) and ev.callee.startswith("self.") else ir.show_nl(ev.recv)
                    if tgt in shared:
                        run.fail("VALUE", f"{name}.value", f"{init.path}:{ev.line}", f"{name}.__init__",
                                 f"defaults merged into class-level {name}.{tgt}",
                                 f"each DefaultImputer must impute its own configured values; the constructor merges them into "
                                 f"the class-level dict `{tgt}`, which every instance shares (a second imputer overwrites the "
                                 f"defaults of the first)")
                        return
        run.need(vf is not None, "DefaultImputer does not store its default values")
        for key, val, ectx, eev in db.entries:
            run.check(val == ("sub", ("field0", vf), ("elem", db.lid)), "VALUE", f"{name}.value",
                      f"{s.path}:{mev.line}", fq, f"value {ir.show_nl(val)}",
                      f"each imputed feature must take its configured default values[f]; found {ir.show_nl(val)}",
                      f"value = self.{vf}[f]")
        return
    if name == "MarginalImputer":
        init = prog.summarise(cls, "__init__")
        storage_fields = [f for f, t in init.fields.items() if t[0] == "param" and "storage" in t[1]]
        run.need(len(storage_fields) == 1, "MarginalImputer storage field not identified")
        sf = ("field0", storage_fields[0])
        # strategy selection
        joint = None
        from .boolalg import literal
        strategy_lits = []
        for c in cond:
            a, pol = literal(c)
            if a[0] == "cmp" and ("const", "joint") in (a[2], a[3]) and any(x[0] == "field0" for x in (a[2], a[3])):
                strategy_lits.append((a, pol))
        if len(strategy_lits) == 1:
            a, pol = strategy_lits[0]
            if a[1] == "==":
                joint = pol
            elif a[1] == "is":
                run.fail("VALUE", f"{name}.strategy", f"{s.path}:{mev.line}", fq, f"strategy test {ir.show_nl(a)}",
                         "the sampling strategy is compared by identity (`is`): an equal string that is not the "
                         "interned literal selects the wrong sampler")
                return
        if joint is not None:
            # what the compared field holds: the constructor argument itself, so that comparing it with the string works
            fld = next(x[1] for x in (strategy_lits[0][0][2], strategy_lits[0][0][3]) if x[0] == "field0")
            held = init.fields.get(fld)
            leaves = [held] if held is not None else []
            while any(l[0] == "gate" for l in leaves):
                leaves = [x for l in leaves for x in ((l[2], l[3]) if l[0] == "gate" else (l,))]
            for l in leaves:
                if l[0] in ("param", "const") or (l[0] == "res" and l[2] in (".lower", ".strip", ".casefold")) or \
                        (l[0] == "fn" and l[1] == "str"):
                    continue
                if l[0] == "enum":
                    if l[4] == "str":
                        continue            # a str-valued member compares like its value
                    run.fail("VALUE", f"{name}.strategy", f"{init.path}:{init.fn.lineno}", f"{name}.__init__",
                             f"self.{fld} = {ir.show_nl(l)[:80]}",
                             f"self.{fld} holds a member of the enumeration {l[1].rsplit('.', 1)[1]}, which never equals the "
                             f"string 'joint' it is compared with: the joint strategy is never selected")
                    return
                K = prog.find_class(l[2].rsplit(".", 1)[1]) if l[0] == "new" and isinstance(l[2], str) and "." in l[2] else None
                if K is not None:
                    bases = [str(b) for b in prog.ext_bases(K)]
                    if any(b.endswith("Enum") or b.endswith("Flag") for b in bases) and \
                            not any(b in ("str", "builtins.str", "enum.StrEnum", "StrEnum") for b in bases):
                        run.fail("VALUE", f"{name}.strategy", f"{init.path}:{init.fn.lineno}", f"{name}.__init__",
                                 f"self.{fld} = {ir.show_nl(l)[:80]}",
                                 f"self.{fld} holds a member of the enumeration {K.name}, which never equals the string 'joint' "
                                 f"it is compared with: the joint strategy is never selected")
                        return
                raise AnalysisError(f"{fq}: the strategy is compared with 'joint' but self.{fld} holds "
                                    f"{ir.show_nl(l)[:100]}; whether that equals the string is not decided")
        if joint is None:
            run.fail("VALUE", f"{name}.strategy", f"{s.path}:{mev.line}", fq,
                     f"strategy selection {' & '.join(ir.show_nl(c) for c in cond) or 'none'}",
                     "the joint/product sampler must be selected by comparing sampling_strategy with 'joint'")
            return
        mode = "joint" if joint else "product"
        sample_lids = {l.lid for l in mctx.loops}
        for key, val, ectx, eev in db.entries:
            inst = f"{name}.{mode}"
            line = eev.line if eev else mev.line
            if not (val[0] == "sub" and val[2] == ("elem", db.lid)):
                run.fail("VALUE", inst, f"{s.path}:{line}", fq, f"{mode} value {ir.show_nl(val)[:120]}",
                         f"[{mode}] the value must be that feature's entry of a stored row; found {ir.show_nl(val)[:160]}")
                continue
            row = val[1]
            while row[0] == "new" and row[2] in ("copy", "deepcopy", "dict") and row[3]:
                row = row[3][0] if row[3][0][0] != "spread" else row[3][0][1]
            if row[0] != "sub":
                run.fail("VALUE", inst, f"{s.path}:{line}", fq, f"{mode} row {ir.show_nl(row)[:120]}",
                         f"[{mode}] the value is not taken from an indexed row of the storage: {ir.show_nl(row)[:160]}")
                continue
            F, idx = row[1], row[2]
            genuine = F[0] == "tget" and F[2] == 0 and F[1][0] == "res" and (
                (F[1][2] == ".get_data" and F[1][3] and F[1][3][0] == sf) or
                (F[1][2] == f"self.{sf[1]}.get_data" and not F[1][3]))
            if not genuine:
                run.fail("VALUE", inst, f"{s.path}:{line}", fq, f"{mode} rows from {ir.show_nl(F)[:120]}",
                         f"[{mode}] background rows must be the storage's current get_data()[0] read in this call; they "
                         f"come from {ir.show_nl(F)[:160]} (a cached copy goes stale when the storage is updated)")
                continue
            verdict, info = exact_range(idx, ("fn", "len", (F,)))
            if verdict == "unknown":
                raise AnalysisError(f"{fq}: row index uses an RNG primitive outside the table: {ir.show_nl(idx)}")
            if verdict is not True:
                run.fail("VALUE", inst, f"{s.path}:{line}", fq, f"{mode} index {ir.show_nl(idx)[:120]}",
                         f"[{mode}] the row index must be uniform on [0, len(rows)) of the same rows: {info}")
                continue
            nest = set(info[5])
            per_sample = sample_lids <= nest
            per_feature = db.lid in nest
            if not per_sample:
                run.fail("VALUE", inst, f"{s.path}:{line}", fq, f"{mode} index drawn outside the inner-sample loop",
                         f"[{mode}] a fresh row index must be drawn for every inner sample")
            elif joint and per_feature:
                run.fail("VALUE", inst, f"{s.path}:{line}", fq, "joint index drawn per feature",
                         "[joint] one row must serve all imputed features of a sample; the index is drawn per feature")
            elif not joint and not per_feature:
                run.fail("VALUE", inst, f"{s.path}:{line}", fq, "product index drawn once per sample",
                         "[product] every feature needs its own independently drawn row; one index is shared by all "
                         "features (this is the joint strategy)")
            else:
                run.ok("VALUE", inst, f"value = get_data()[0][{ir.show_nl(idx)}][f]; draw nest "
                       f"{'per sample' if joint else 'per sample and feature'}")
        return
    run.ok("VALUE", f"{name}.value", "value provenance of this imputer is decided by its own property (C19) / not constrained")


def _count(run, prog, cls, s, fq, mf, n, rng):
    r = s.ret
    lb = list_build(r, s.events)
    if lb is None:
        run.fail("COUNT", f"{cls.name}.count", f"{s.path}:{s.fn.lineno}", fq, f"returns {ir.show_nl(r)[:120]}",
                 f"impute must return a list of n_samples predictions; it returns {ir.show_nl(r)[:160]}")
        return
    is_model = lambda t: t[0] == "res" and t[2] == f"self.{mf}"
    if lb.kind == "comp":
        ok = lb.over == rng and is_model(lb.entries[0][0]) and not r[6]
        run.check(ok, "COUNT", f"{cls.name}.count", f"{s.path}:{s.fn.lineno}", fq, f"returns {ir.show_nl(r)[:140]}",
                  f"exactly n_samples model predictions must be returned; found {ir.show_nl(r)[:200]}",
                  "list of the model prediction for range(n_samples)")
        return
    ent = lb.entries
    ok = len(ent) == 1
    if ok:
        v, ectx, eev = ent[0]
        ok = is_model(v) and len(ectx.loops) == 1 and ectx.loops[0].iter == rng and not ectx.guards and \
            eev.method == "append"
    why = ""
    if len(ent) == 1 and not ok:
        v, ectx, eev = ent[0]
        if ectx.loops and ectx.loops[0].iter != rng:
            why = f" (the loop runs over {ir.show_nl(ectx.loops[0].iter)})"
        elif ectx.guards:
            why = f" (append only when {ir.show_nl(ectx.guards[0])})"
    run.check(ok, "COUNT", f"{cls.name}.count", f"{s.path}:{s.fn.lineno}", fq,
              f"{len(ent)} append site(s){why}",
              f"exactly one model prediction must be appended per iteration of range(n_samples){why}",
              "one append of the model prediction per iteration of range(n_samples)")


def _nomut(run, prog, cls, s, fq, x, subset):
    protected = {x, subset}
    for ev, _ in walk(s.events):
        if isinstance(ev, ir.Call) and ev.method == "get_data":
            protected.add(ev.res)
    hits = protected_mutations(s.events, protected)
    # stores through stored rows: root is the get_data result
    for ev, ctx, alt in hits:
        what = "the explained instance" if alt == x else ("the requested subset" if alt == subset else "the storage's data")
        run.fail("NOMUT", f"{cls.name}.nomut", f"{s.path}:{ev.line}", fq, f"mutates {what}: {run.stmt_text(s.path, ev.line)}",
                 f"impute modifies {what} in place at line {ev.line} ({run.stmt_text(s.path, ev.line)})")
    # storage update calls
    for ev, ctx in walk(s.events):
        if isinstance(ev, ir.Call) and ev.method in ("update",) and ev.callee.startswith("self.") and "storage" in ev.callee:
            run.fail("NOMUT", f"{cls.name}.nomut", f"{s.path}:{ev.line}", fq, "storage updated by impute",
                     "impute updates the storage")
            hits.append(ev)
    # methods of the storage that impute calls must be read-only on every storage class that offers them
    init = prog.summarise(cls, "__init__")
    sfields = [f for f, t in init.fields.items() if t[0] == "param" and "storage" in t[1]]
    from .imputerlib import base_class
    try:
        storages = prog.subclasses(base_class(prog, "STORAGE"), strict=True)
    except Exception:
        storages = []
    for ev, ctx in walk(s.events):
        if not (isinstance(ev, ir.Call) and ev.method and any(ev.callee == f"self.{f}" for f in sfields)):
            continue
        for sc in storages:
            owner, m = prog.find_method(sc, ev.method)
            if m is None or owner.name.startswith("Base") and ev.method in ("get_data", "__len__"):
                continue
            try:
                ms = prog.summarise(sc, ev.method)
            except ir.Unsupported:
                continue
            writes = [w for w, _ in walk(ms.events)
                      if isinstance(w, (ir.Store, ir.SubStore, ir.Del)) or
                      (isinstance(w, ir.Mut) and w.recv[0] in ("field0", "sub", "attr")) or
                      (isinstance(w, ir.Call) and w.method in ir.MUTATORS and w.callee.startswith("self."))]
            writes = [w for w in writes if not (isinstance(w, (ir.SubStore, ir.Mut)) and
                                                (w.cont if isinstance(w, ir.SubStore) else w.recv)[0] == "new")]
            if writes:
                run.fail("NOMUT", f"{cls.name}.nomut", f"{s.path}:{ev.line}", fq,
                         f"impute calls {sc.name}.{ev.method}, which writes: {run.stmt_text(ms.path, writes[0].line)}",
                         f"impute calls the storage's {ev.method}(), and {sc.name}.{ev.method} modifies the storage "
                         f"(line {writes[0].line}: {run.stmt_text(ms.path, writes[0].line)}): imputing changes what is stored")
                hits.append(ev)
                break
    if not hits:
        run.ok("NOMUT", f"{cls.name}.nomut", "no mutation reaches the instance, the subset or stored rows")


_M = "ixai/imputer/marginal_imputer.py"
_D = "ixai/imputer/default_imputer.py"
WITNESSES = [
    ("marginal: merge order reversed", [(_M, "{**x_i, **sampled_values}", "{**sampled_values, **x_i}")]),
    ("marginal: dict(x_i, **sampled) needs str feature names", [(_M, "{**x_i, **sampled_values}", "dict(x_i, **sampled_values)")]),
    ("marginal: keys taken from the instance", [(_M, "for feature_name in feature_subset}", "for feature_name in sampled_instance}")]),
    ("marginal: n_samples + 1 predictions", [(_M, "for _ in range(n_samples):", "for _ in range(n_samples + 1):")]),
    ("marginal: instance updated in place", [(_M, "prediction = self.model_function({**x_i, **sampled_values})", "x_i.update(sampled_values)\n            prediction = self.model_function(x_i)")]),
    ("marginal: stored row popped", [(_M, "sampled_features[feature_name] = features[\n                            rand_idx].copy()[feature_name]", "sampled_features[feature_name] = features[rand_idx].pop(feature_name)")]),
    ("marginal: randrange(len - 1)", [(_M, "        rand_idx = random.randrange(len(features))\n        sampled_instance", "        rand_idx = random.randrange(len(features) - 1)\n        sampled_instance")]),
    ("marginal: product index drawn once", [(_M, "        sampled_features = {}\n        for feature_name in feature_subset:\n            rand_idx = random.randrange(len(features))\n",
                                              "        sampled_features = {}\n        rand_idx = random.randrange(len(features))\n        for feature_name in feature_subset:\n")]),
    ("marginal: first row always", [(_M, "sampled_instance = features[rand_idx].copy()", "sampled_instance = features[0].copy()")]),
    ("marginal: identity comparison of the strategy", [(_M, "if self.sampling_strategy == 'joint':", "if self.sampling_strategy is 'joint':")]),
    ("marginal: stale snapshot of the rows", [(_M, "        features, _ = storage_object.get_data()\n", "        if getattr(self, '_rows', None) is None or len(self._rows) != len(storage_object):\n            self._rows = list(storage_object.get_data()[0])\n        features = self._rows\n")]),
    ("marginal: unchanged features hoisted (key order changes)", [(_M, "prediction = self.model_function({**x_i, **sampled_values})",
                                                                   "x_present = {k: v for k, v in x_i.items() if k not in feature_subset}\n            prediction = self.model_function({**x_present, **sampled_values})")]),
    ("default: in-place evaluation", [(_D, "        prediction = self.model_function({**x_i, **sampled_values})\n", "        x_i.update(sampled_values)\n        prediction = self.model_function(x_i)\n")]),
    ("default: one prediction too few", [(_D, "for _ in range(n_samples)]", "for _ in range(n_samples - 1)]")]),
    ("default: all features defaulted", [(_D, "for feature in feature_subset}", "for feature in self.values}")]),
    ("tree: conditional imputation", [("ixai/imputer/tree_imputer.py", "                sampled_values[feature_name] = sampled_value\n", "                if sampled_value is not None:\n                    sampled_values[feature_name] = sampled_value\n")]),
]
SILENT = [
    ("marginal: strategy looked up in a read-only class-level table", [
        (_M, "class MarginalImputer(BaseImputer):\n", "class MarginalImputer(BaseImputer):\n    _STRATEGIES = {'joint': True, 'product': False}\n"),
        (_M, "        if self.sampling_strategy == 'joint':", "        if self._STRATEGIES.get(self.sampling_strategy, False):")]),
    ("marginal: union operator", [(_M, "{**x_i, **sampled_values}", "x_i | sampled_values")]),
    ("marginal: copy then update", [(_M, "prediction = self.model_function({**x_i, **sampled_values})", "x_new = x_i.copy()\n            x_new.update(sampled_values)\n            prediction = self.model_function(x_new)")]),
    ("marginal: list comprehension of predictions", [(_M, "        predictions = []\n        for _ in range(n_samples):\n            sampled_values = self._sample(self.storage_object, feature_subset)\n            prediction = self.model_function({**x_i, **sampled_values})\n            predictions.append(prediction)\n        return predictions\n",
                                                       "        return [self.model_function({**x_i, **self._sample(self.storage_object, feature_subset)}) for _ in range(n_samples)]\n")]),
    ("marginal: row not copied (read only)", [(_M, "sampled_instance = features[rand_idx].copy()", "sampled_instance = features[rand_idx]")]),
    ("marginal: random.randint index", [(_M, "        rand_idx = random.randrange(len(features))\n        sampled_instance", "        rand_idx = random.randint(0, len(features) - 1)\n        sampled_instance")]),
]
