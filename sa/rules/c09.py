"""C09 -- GeometricReservoirStorage: accept with the configured constant probability, uniform slot.

Schema: when full, accept <=> fresh U[0,1) draw <= p (or <) with p the stored constant probability;
slot ~ uniform integer on [0, size) from a draw used for nothing else; p = argument if given else
1/size; nothing else moves; TreeStorage constructs its leaf reservoirs with a constant p >= 1.
The retention law p(1-p/k)^(n-t) is the mathematical consequence of the schema.
"""
from .. import ir
from ..paths import walk
from ..report import AnalysisError
from .storagelib import containers, ops_on, capacity_guard, full_guard, update_paths
from .drawlib import is_uniform01, exact_range, draws_in, KNOWN
from .common import const_value, new_items

META = {
    "explanation": "Schema conformance of GeometricReservoirStorage.__init__/update on all paths: acceptance literal "
                   "(fresh U[0,1) draw compared with the constant_probability field), slot draw with exact range "
                   "[0,size) from an independent draw, default p = 1/size chosen by an explicit None test, idle paths "
                   "change nothing; plus the TreeStorage call site (constant p >= 1).",
    "trusted_base": ["random.random is U[0,1); random.randrange(n) uniform on 0..n-1",
                     "the geometric retention law follows from per-arrival Bernoulli(p) acceptance and a uniform slot"],
    "assumptions": [],
}
META["explanation"] += ' Also COPY, constructor wiring per object, DEP-C18 E1.'
META["explanation"] += ' Round 5: DEP-C06 NOMUT, DEP-C07 COUNT / PARALLEL for this class, DEP-C15 DEFAULTS storage; dependencies are evaluated first. HAZARD: constructs that do not mean what they look like, met in the analysed code (defaults evaluated once, class-level containers changed through self, dict.fromkeys with a shared mutable value, late-binding lambdas, truth value of objects that define __len__) are reported by every check.'
MIN_INSTANCES = {"FORMULA": 3, "DRAW": 1, "AGREE": 1}
CLS = "GeometricReservoirStorage"


def check(run):
    prog = run.prog
    cls = prog.find_class(CLS)
    run.need(cls is not None, f"anchor class {CLS} vanished")
    from . import c06
    c06.depends_on(run, "C18", {"E1"})      # acceptance and slot draws advance the global generator (no state save / restore)
    c06.depends_on(run, "C06", {"NOMUT"})   # the imputer only reads what get_data hands out (a row removed there leaves a free slot)
    c06.depends_on(run, "C15", {"DEFAULTS"}, only=lambda rule, inst: inst.endswith(".storage"))
    c06.depends_on(run, "C07", {"COUNT", "PARALLEL"}, only=lambda rule, inst: inst.startswith(CLS))    # every arrival is offered to the reservoir
    init = prog.summarise(cls, "__init__")
    s, ps = update_paths(prog, cls)
    run.analysed_fn(f"{CLS}.__init__")
    run.analysed_fn(f"{CLS}.update")
    run.analysed["paths"] += len(ps)
    gd, conts = containers(prog, cls)
    run.need(all(c[0] == "field0" for c in conts), "get_data does not expose the containers (see C07)")
    xf = conts[0][1]
    fq = f"{CLS}.update"
    # ---- constructor: p = argument if not None else 1/size -------------------------------------
    _, ifn = prog.find_method(cls, "__init__")
    pf = None
    for f, t in init.fields.items():
        if "prob" in f:
            pf = f
    run.need(pf is not None, "no probability field assigned in the constructor")
    pt = init.fields[pf]
    size_v = init.fields.get("size")
    ok, why = False, ""
    if pt[0] == "gate":
        cond, a, b = pt[1], pt[2], pt[3]
        if cond[0] == "cmp" and cond[1] in ("is not", "!=") and cond[3] == ("const", None):
            given, dflt, param = a, b, cond[2]
        elif cond[0] == "cmp" and cond[1] in ("is", "==") and cond[3] == ("const", None):
            given, dflt, param = b, a, cond[2]
        else:
            given = dflt = param = None
            why = f"the default is selected by `{ir.show_nl(cond)}`, not by an explicit None test"
        if param is not None:
            if given != param:
                why = f"a supplied probability is replaced by {ir.show_nl(given)}"
            elif dflt not in (("op", "/", ("const", 1), size_v), ("op", "/", ("const", 1.0), size_v)):
                why = f"default probability is {ir.show_nl(dflt)}, expected 1/size"
            else:
                ok = True
    else:
        why = f"probability is {ir.show_nl(pt)}; expected `p if p is not None else 1/size`"
    run.check(ok, "FORMULA", "G.p", f"{init.path}:{init.fn.lineno}", f"{CLS}.__init__",
              f"p = {ir.show_nl(pt)}", f"every configured p in [0,1] (including 0) must be kept: {why}",
              f"self.{pf} = {ir.show_nl(pt)}")
    # a range check must not exclude p in [0, 1]
    from .common import guard_conditions, bounds_from
    for cond, guards, gl in guard_conditions(init.events):
        for subj in (("param", "constant_probability"), pt):
            b = bounds_from(cond, subj)
            if ("hi" in b and (b["hi"] < 1 or (b["hi"] == 1 and b["hi_strict"]))) or \
                    ("lo" in b and (b["lo"] > 0 or (b["lo"] == 0 and b["lo_strict"]))):
                run.fail("FORMULA", "G.p-range", f"{init.path}:{gl}", f"{CLS}.__init__", f"range check {ir.show_nl(cond)}",
                         f"the constructor rejects probabilities inside [0,1]: {ir.show_nl(cond)}")
    p0 = ("field0", pf)
    k = ("field0", "size")
    n_accept = 0
    for p in ps:
        full = any(full_guard(l, xf, "size", None) for l in p.guards)
        xs = ops_on(p.events, xf)
        replaces = [o for o in xs if o.kind == "setitem"]
        gtxt = " & ".join(ir.show_nl(g) for g in p.guards) or "always"
        for ev in p.events:
            if isinstance(ev, ir.Store) and ev.field in (pf, "size"):
                run.fail("FORMULA", "G.idle", f"{s.path}:{ev.line}", fq, f"update writes self.{ev.field}",
                         f"[{gtxt}] update changes the configured {ev.field}")
        if not full or not replaces:
            continue
        # whatever selects this path, the slot it overwrites must be a fresh uniform draw on [0, size)
        for rp in replaces:
            verdict0, info0 = exact_range(rp.index, k)
            if verdict0 is False and not draws_in(rp.index):
                run.fail("DRAW", "G.slot", f"{s.path}:{rp.ev.line}", fq, f"slot index {ir.show_nl(rp.index)[:80]}",
                         f"[{gtxt}] a full reservoir overwrites slot {ir.show_nl(rp.index)[:100]}, which is not drawn at "
                         f"random: every stored observation must be equally likely to be replaced (a fixed or cycling "
                         f"slot turns the reservoir into a sliding window)")
        if any(exact_range(rp.index, k)[0] is False and not draws_in(rp.index) for rp in replaces):
            continue
        # acceptance literal on this path
        acc = None
        for l in p.guards:
            if l[0] == "cmp" and l[1] in ("<=", "<") and is_uniform01(l[2]) and l[3] == p0:
                acc = l[2]
            if l[0] == "cmp" and l[1] in (">=", ">") and is_uniform01(l[3]) and l[2] == p0:
                acc = l[3]
        if acc is None:
            lits = [l for l in p.guards if draws_in(l) or p0 in ir.subterms(l)]
            if any(d[2] not in KNOWN for l in lits for d in draws_in(l)):
                raise AnalysisError("acceptance test uses an RNG primitive outside the table")
            if not lits:
                run.fail("FORMULA", "G.accept", f"{s.path}:{replaces[0].ev.line}", fq, "replacement without acceptance draw",
                         f"[{gtxt}] a full reservoir replaces a slot without drawing against the constant probability")
                continue
            shape = ir.show_nl(lits[0]) if lits else gtxt
            simple = lits and all(_simple_accept(l, p0) for l in lits)
            if simple:
                run.fail("FORMULA", "G.accept", f"{s.path}:{replaces[0].ev.line}", fq, f"accept test {shape}",
                         f"[{gtxt}] acceptance must be `U <= p` for a fresh U[0,1) draw and the constant probability; found {shape}")
                continue
            raise AnalysisError(f"GeometricReservoirStorage.update does not match the per-arrival acceptance schema "
                                f"(accept test: {shape}); cannot decide the retention law for this shape")
        on_path = [ev.res for ev in p.events if isinstance(ev, ir.Draw)]
        run.check(acc in on_path, "FORMULA", "G.accept", f"{s.path}:{s.fn.lineno}", fq, f"accept draw {ir.show_nl(acc)}",
                  f"[{gtxt}] the acceptance draw is not made in this update", f"accept <=> {ir.show_nl(acc)} <= self.{pf}")
        n_accept += 1
        if len(replaces) != 1:
            run.fail("DRAW", "G.slot", f"{s.path}:{s.fn.lineno}", fq, f"accept path replaces {len(replaces)} slots",
                     f"[{gtxt}] exactly one slot must be replaced")
            continue
        verdict, info = exact_range(replaces[0].index, k)
        if verdict == "unknown":
            raise AnalysisError(f"slot index uses an RNG primitive outside the table: {ir.show_nl(replaces[0].index)}")
        indep = verdict is True and info != acc and info in on_path
        reason = info if verdict is not True else ("the slot reuses the acceptance draw" if info == acc else "")
        if verdict is not True and acc in draws_in(replaces[0].index):
            reason = "the slot is computed from the acceptance draw, which is conditioned on U <= p"
        run.check(indep, "DRAW", "G.slot", f"{s.path}:{replaces[0].ev.line}", fq,
                  f"slot index {ir.show_nl(replaces[0].index)}",
                  f"[{gtxt}] the replaced slot must be uniform on [0,size) and independent of the acceptance: {reason}",
                  f"slot = {ir.show_nl(replaces[0].index)}")
    run.check(n_accept >= 1, "FORMULA", "G.accept-exists", f"{s.path}:{s.fn.lineno}", fq, "no accept path",
              "no path of update replaces a slot under `U <= p` at capacity", f"{n_accept} accept path(s)")
    # fill phase / replacement typestate of this class (C07 clauses)
    from . import c06, c07
    c07._storage(c06.FilterRun(run, {"COUNT", "PARALLEL"}, {"COUNT": "FORMULA", "PARALLEL": "FORMULA"}), prog, cls, False)
    from .copylib import copy_protocol
    copy_protocol(run, prog, cls)           # a copied / unpickled reservoir keeps its probability, size and contents
    from .common import ctor_wiring
    ctor_wiring(c06.FilterRun(run, {"CTOR"}, {"CTOR": "FORMULA"}), prog, cls, "CTOR")   # size / probability as configured, per object
    # ---- AGREE: TreeStorage relies on p >= 1 ---------------------------------------------------
    ts = prog.find_class("TreeStorage")
    run.need(ts is not None, "anchor class TreeStorage vanished")
    sites = 0
    for name in ts.methods:
        try:
            sm = prog.summarise(ts, name)
        except ir.Unsupported:
            continue
        for ev, ctx in walk(sm.events):
            if isinstance(ev, ir.Construct) and ev.qual == cls.qual:
                sites += 1
                run.analysed["call_sites"] += 1
                kw = dict(ev.kwargs)
                names = [a.arg for a in ifn.args.args][1:]
                pos = dict(zip(names, ev.args))
                pv = kw.get("constant_probability", pos.get("constant_probability"))
                v = const_value(pv) if pv is not None else None
                run.check(v is not None and v >= 1, "AGREE", f"TreeStorage.{name}", f"{sm.path}:{ev.line}",
                          f"TreeStorage.{name}", f"leaf reservoir p = {ir.show_nl(pv) if pv else None}",
                          f"TreeStorage needs always-insert leaf reservoirs (constant probability >= 1), passes "
                          f"{ir.show_nl(pv) if pv else 'the default 1/size'}", f"constant_probability = {ir.show_nl(pv) if pv else None}")
    run.need(sites >= 1, "TreeStorage no longer constructs GeometricReservoirStorage leaf reservoirs")


def _simple_accept(l, p0):
    """A comparison between one draw-derived value and the probability field (wrong direction,
    wrong operand...) as opposed to a different algorithm."""
    return l[0] in ("cmp", "not") and p0 in ir.subterms(l) and bool(draws_in(l))


_G = "ixai/storage/geometric_reservoir_storage.py"
_T = "ixai/storage/tree_storage.py"
WITNESSES = [
    ("accept on >=", [(_G, "if random_float <= self.constant_probability:", "if random_float >= self.constant_probability:")]),
    ("slot randrange(size - 1)", [(_G, "rand_idx = random.randrange(self.size)", "rand_idx = random.randrange(self.size - 1)")]),
    ("slot from the acceptance draw", [(_G, "rand_idx = random.randrange(self.size)", "rand_idx = int(random_float * self.size)")]),
    ("default 1/(size+1)", [(_G, "self.constant_probability = 1 / self.size", "self.constant_probability = 1 / (self.size + 1)")]),
    ("default via `or`", [(_G, "        if constant_probability is not None:\n            self.constant_probability = constant_probability\n        else:\n            self.constant_probability = 1 / self.size\n",
                            "        self.constant_probability = constant_probability or 1 / self.size\n")]),
    ("TreeStorage constant 0.5", [(_T, "constant_probability=1.0", "constant_probability=0.5")]),
    ("TreeStorage default probability", [(_T, "store_targets=False, constant_probability=1.0)", "store_targets=False)")]),
    ("exclusive range check", [(_G, "        if constant_probability is not None:\n", "        if constant_probability is not None and 0. < constant_probability < 1.:\n")]),
    ("always accept", [(_G, "            if random_float <= self.constant_probability:\n", "            if True:\n")]),
]
SILENT = [
    ("strict comparison", [(_G, "if random_float <= self.constant_probability:", "if random_float < self.constant_probability:")]),
    ("probability on the left", [(_G, "if random_float <= self.constant_probability:", "if self.constant_probability >= random_float:")]),
    ("is None test", [(_G, "        if constant_probability is not None:\n            self.constant_probability = constant_probability\n        else:\n            self.constant_probability = 1 / self.size\n",
                        "        self.constant_probability = 1 / self.size if constant_probability is None else constant_probability\n")]),
    ("slot via numpy randint", [(_G, "rand_idx = random.randrange(self.size)", "rand_idx = random.randint(0, self.size - 1)")]),
]
