"""C11 -- SlidingWindowTracker reports statistics of exactly the last k values.

 NPAPI  every numpy name used by the tracker module exists in the installed NumPy / survives NumPy 2;
 RING   every path of update stores exactly the supplied value once, at a slot in [0,k), and leaves the
        write position one past the slot just written (relative advance); the wrap slot 0 is only used
        when the position has reached k; so consecutive calls write slots 0,1,..,k-1,0,1,..
 NAN    the buffer starts as k NaN sentinels and mean/var/std apply NaN-aware aggregates to it.
"""
from .. import ir
from ..paths import paths, walk
from ..poly import Normaliser, OutOfDomain
from ..report import AnalysisError
from .common import const_value, guard_conditions, bounds_from
from . import npapi

META = {
    "explanation": "Ring-buffer typestate over every path of SlidingWindowTracker.update (stored value, slot range by "
                   "the dominating guard, relative advance of the write position, wrap condition), sentinel "
                   "initialisation, NaN-aware aggregates in the three getters, and NPAPI name resolution of every "
                   "numpy attribute of the module against the installed NumPy and the NumPy-2 removal table.",
    "trusted_base": ["numpy.nanmean/nanvar/nanstd ignore NaN entries and are otherwise mean/var/std",
                     "the NumPy in /venv is the supported NumPy"],
    "assumptions": ["window size k >= 1 (asserted by the constructor)"],
}
META["explanation"] += ' Also COPY (a copied window tracker owns its buffer and write position).'
META["explanation"] += ' Round 5: NumPy calls that change the kept array in place although they read like queries (overwrite_input=True, out=self.<array>, .sort / .partition); DEP-C18 E4 for the tracker module. HAZARD: constructs that do not mean what they look like, met in the analysed code (defaults evaluated once, class-level containers changed through self, dict.fromkeys with a shared mutable value, late-binding lambdas, truth value of objects that define __len__) are reported by every check.'
META["explanation"] += ' Round 6: every method / property besides the constructor, update and their helpers only reads the window (RING read-only; in-place operators on a name that may denote the buffer count).'
MIN_INSTANCES = {"NPAPI": 1, "RING": 2, "NAN": 4, "COPY": 1}
CLS = "SlidingWindowTracker"
AGG = {"mean": ("nanmean",), "var": ("nanvar",), "std": ("nanstd",)}


def _same(a, b):
    try:
        return Normaliser().same(a, b)
    except OutOfDomain:
        return a == b


def check(run):
    from .c06 import depends_on
    depends_on(run, "C18", {"E4"}, only=lambda rule, inst: "sliding_window" in inst)    # each tracker owns its window (no memoised / module-level array)
    _check_own(run)
    # COPY: a copied window tracker owns its ring buffer and its write position
    from .copylib import copy_protocol
    prog = run.prog
    for cls in [prog.find_class(CLS)]:
        if cls is not None:
            copy_protocol(run, prog, cls)


def _check_own(run):
    prog = run.prog
    cls = prog.find_class(CLS)
    run.need(cls is not None, f"anchor class {CLS} vanished")
    # ---- NPAPI -----------------------------------------------------------------------------------
    refs = npapi.numpy_refs(prog, {cls.module.name})
    run.need(refs, "the tracker module references no numpy name (anchor changed)")
    bad = 0
    for path, line, dotted in refs:
        exists, removed = npapi.resolves(dotted)
        run.analysed["call_sites"] += 1
        if not exists or removed:
            bad += 1
            run.fail("NPAPI", dotted, f"{path}:{line}", CLS, f"{dotted}",
                     f"{dotted} " + ("is removed in NumPy 2" if removed else "does not exist") +
                     f" (installed NumPy {npapi.numpy_version()}): the tracker cannot be constructed/used")
    for path, line, what, why in npapi.call_hazards(prog, {cls.module.name}):
        bad += 1
        run.fail("NPAPI", what, f"{path}:{line}", CLS, what, why)
    if not bad:
        run.ok("NPAPI", cls.module.name, f"{len(refs)} numpy references resolve in NumPy {npapi.numpy_version()}: "
               + ", ".join(sorted({d for _, _, d in refs})))
    # ---- readers leave the window alone ----------------------------------------------------------------
    # every method / property other than the constructor and update only reads the ring buffer: an in-place operation
    # on it (also through a local name that may denote it, or a helper's result that may be it) rearranges or rescales
    # the stored values behind the back of the write position
    import ast as _ast
    from ..paths import root as _root
    n_readers = 0
    writers, todo_w = {"__init__", "update", "__setstate__", "__post_init__"}, ["__init__", "update", "__setstate__", "__post_init__"]
    while todo_w:           # helpers that update / the constructor call are part of the write side
        _, wfn = prog.find_method(cls, todo_w.pop())
        if wfn is None:
            continue
        for c_ in _ast.walk(wfn):
            if isinstance(c_, _ast.Call) and isinstance(c_.func, _ast.Attribute) and isinstance(c_.func.value, _ast.Name) and \
                    wfn.args.args and c_.func.value.id == wfn.args.args[0].arg and c_.func.attr not in writers:
                writers.add(c_.func.attr)
                todo_w.append(c_.func.attr)
    for k in prog.mro(cls):
        for mname, fn in k.methods.items():
            if mname in writers or mname.endswith((".setter", ".deleter")) or mname.startswith("__") and mname not in ("__call__",):
                continue
            try:
                ms = prog.summarise(cls, mname)
            except ir.Unsupported:
                continue
            n_readers += 1
            for ev, ctx in walk(ms.events):
                tgt = ev.recv if isinstance(ev, ir.Mut) else (ev.cont if isinstance(ev, (ir.SubStore, ir.Del)) else None)
                if tgt is None:
                    continue
                leaves, todo = [], [tgt]
                while todo:
                    t_ = todo.pop()
                    if t_[0] == "gate":
                        todo += [t_[2], t_[3]]
                    elif t_[0] == "sub" and t_[2][0] != "slice":
                        pass        # x[mask] / x[indices] / x[i]: a copy or a scalar, not the buffer
                    else:
                        leaves.append(_root(t_))
                if any(l[0] == "field0" for l in leaves):
                    run.fail("RING", f"{mname}.read-only", f"{ms.path}:{ev.line}", f"{CLS}.{mname}", run.stmt_text(ms.path, ev.line),
                             f"{CLS}.{mname} changes {ir.show_nl(tgt)[:80]} in place: reading a statistic must leave the window "
                             f"as update() left it (the slots are indexed by arrival position)")
    if not any(f.instance.endswith(".read-only") for f in run.findings):
        run.ok("RING", "readers.read-only", f"{n_readers} methods / properties besides update only read the window")
    # ---- constructor -----------------------------------------------------------------------------
    init = prog.summarise(cls, "__init__")
    run.analysed_fn(f"{CLS}.__init__")
    _, ifn = prog.find_method(cls, "__init__")
    kparam = ("param", [a.arg for a in ifn.args.args][1])
    kf = next((f for f, t in init.fields.items() if t == kparam), None)
    run.need(kf is not None, "window size is not stored")
    pf = [f for f, t in init.fields.items() if const_value(t) == 0 and f != kf]
    bufs = [f for f, t in init.fields.items() if t[0] in ("fn", "res", "new") and kparam in ir.subterms(t) or
            (t[0] == "fn" and ("field0", kf) in ir.subterms(t))]
    bufs = [f for f in bufs if f != kf]
    run.need(len(pf) >= 1 and len(bufs) == 1, f"cannot identify write position / buffer: {pf} {bufs}")
    bf = bufs[0]
    bt = init.fields[bf]
    run.check(_nan_buffer(bt, kparam), "NAN", "init.buffer", f"{init.path}:{init.fn.lineno}", f"{CLS}.__init__",
              f"buffer = {ir.show_nl(bt)}", f"the buffer must start as k NaN sentinels; it is {ir.show_nl(bt)}",
              f"buffer = {ir.show_nl(bt)}")
    pos_ok = False
    for cond, guards, gl in guard_conditions(init.events):
        b = bounds_from(cond, kparam)
        if not guards and ((b.get("lo") == 0 and b.get("lo_strict")) or (b.get("lo") == 1 and not b.get("lo_strict"))):
            pos_ok = True
    run.check(pos_ok, "RING", "init.k>=1", f"{init.path}:{init.fn.lineno}", f"{CLS}.__init__", "k range check",
              "the constructor does not require k >= 1", "assert 0 < k")
    # ---- update ------------------------------------------------------------------------------------
    s = prog.summarise(cls, "update")
    fq = f"{CLS}.update"
    run.analysed_fn(fq)
    _, ufn = prog.find_method(cls, "update")
    v = ("param", [a.arg for a in ufn.args.args][1])
    B, K = ("field0", bf), ("field0", kf)
    ps = paths(s.events, unroll=1)
    run.analysed["paths"] += len(ps)
    posf = None
    for f in pf:
        if any(isinstance(e, ir.Store) and e.field == f for p in ps for e in p.events):
            posf = f
    run.need(posf is not None, "update never writes the position field")
    P0 = ("field0", posf)
    problems = 0
    from .algebra import arms
    from .boolalg import literal
    for p in ps:
        st = [e for e in p.events if isinstance(e, ir.SubStore) and e.cont == B]
        gtxt0 = " & ".join(ir.show_nl(g) for g in p.guards) or "always"
        if p.exit == "raise" and not st:
            continue                    # an input rejected before anything is stored
        if len(st) != 1:
            problems += 1
            run.fail("RING", "store-once", f"{s.path}:{s.fn.lineno}", fq, f"{len(st)} buffer stores [{gtxt0}]",
                     f"[{gtxt0}] update must store the value exactly once, this path stores {len(st)} times")
            continue
        p1_raw = P0
        for e in p.events:
            if isinstance(e, ir.Store) and e.field == posf:
                p1_raw = e.value
        # conditional expressions inside the index / position terms are further case splits of this path
        for facts2, tup in arms(("tuple", (st[0].key, st[0].value, p1_raw))):
            facts = list(p.guards) + list(facts2)
            if any(ir.negate(f) in facts for f in facts):
                continue
            gtxt = " & ".join(ir.show_nl(g) for g in facts) or "always"
            w, val, p1 = (ir.assume(x, facts) for x in tup[1])
            if val != v:
                problems += 1
                run.fail("RING", "value", f"{s.path}:{st[0].line}", fq, f"stored value {ir.show_nl(val)}",
                         f"[{gtxt}] the supplied value must be stored unchanged; {ir.show_nl(val)} is stored "
                         f"(e.g. a zero would be replaced)")
            modw = ("op", "%", P0, K)
            below = literal(("cmp", "<", P0, K))
            lits = [literal(g) for g in facts]
            lt = below in lits
            ge = (below[0], not below[1]) in lits or literal(("cmp", "==", P0, K)) in lits
            if w == P0 and lt:
                adv = _same(p1, ("op", "+", w, ("const", 1)))
            elif const_value(w) == 0 and ge:
                adv = _same(p1, ("const", 1))
            elif w == modw:
                adv = _same(p1, ("op", "+", P0, ("const", 1))) or _same(p1, ("op", "+", w, ("const", 1))) or \
                    p1 == ("op", "%", ("op", "+", P0, ("const", 1)), K)
            else:
                problems += 1
                why = "slot 0 is written although the position has not reached k" if const_value(w) == 0 else \
                      "the slot is not bounded by a dominating `pos < k` test"
                run.fail("RING", "slot", f"{s.path}:{st[0].line}", fq, f"slot {ir.show_nl(w)} under [{gtxt}]",
                         f"[{gtxt}] value is written to slot {ir.show_nl(w)}: {why}")
                continue
            if not adv:
                problems += 1
                run.fail("RING", "advance", f"{s.path}:{st[0].line}", fq,
                         f"slot {ir.show_nl(w)} then position {ir.show_nl(p1)} [{gtxt}]",
                         f"[{gtxt}] after writing slot {ir.show_nl(w)} the write position becomes {ir.show_nl(p1)}; it must "
                         f"be one past the slot just written, otherwise the next value lands on the wrong slot")
    if not problems:
        run.ok("RING", "update", f"{len(ps)} paths: one store of the value, slot in [0,k), position = slot + 1")
    # ---- getters -------------------------------------------------------------------------------------
    for name, aggs in AGG.items():
        g = prog.summarise(cls, name)
        run.analysed_fn(f"{CLS}.{name}")
        r = g.ret
        while r[0] == "fn" and r[1] == "float" and len(r[2]) == 1:
            r = r[2][0]
        ok = r[0] == "fn" and r[1] in aggs and r[2] and r[2][0] == B
        if not ok and name == "std" and r[0] == "fn" and r[1] == "sqrt" and r[2][0][0] == "fn" and \
                r[2][0][1] == "nanvar" and r[2][0][2][0] == B:
            ok = True
        if ok:
            run.ok("NAN", f"get.{name}", f"{name} = {ir.show_nl(g.ret)}")
            continue
        nonnan = [t for t in ir.subterms(g.ret) if t[0] == "fn" and t[1] in ("mean", "var", "std", "sum", "median")
                  and t[2] and B in ir.subterms(t)]
        raw = _raw_moment(g.ret)
        if nonnan:
            why = f"{nonnan[0][1]} is not NaN-aware: unfilled sentinel slots poison the result"
        elif raw:
            why = "variance is computed as E[x^2] - E[x]^2 (catastrophic cancellation: not the variance of the window in floats)"
        elif B not in ir.subterms(g.ret):
            why = "the result is not computed from the window buffer"
        elif g.ret[0] == "gate":
            # the aggregate is bypassed on some condition of the tracker's state
            from .algebra import arms
            odd = [(facts, v) for facts, v in arms(g.ret)
                   if not any(t[0] == "fn" and t[1] in aggs and t[2] and t[2][0] == B for t in ir.subterms(v))]
            if not odd:
                raise AnalysisError(f"{CLS}.{name} has an unrecognised aggregate shape: {ir.show_nl(g.ret)}")
            facts, v = odd[0]
            why = f"when {' & '.join(ir.show_nl(f)[:60] for f in facts)} it returns {ir.show_nl(v)[:60]} instead (the write " \
                  f"position also takes that value while the window holds observations)"
        else:
            raise AnalysisError(f"{CLS}.{name} has an unrecognised aggregate shape: {ir.show_nl(g.ret)}")
        run.fail("NAN", f"get.{name}", f"{g.path}:{g.fn.lineno}", f"{CLS}.{name}", f"{name} = {ir.show_nl(g.ret)[:160]}",
                 f"{name} must be the NaN-aware {aggs[0]} of the window buffer: {why}")
    c = prog.summarise(cls, "__call__")
    run.check(c.ret == prog.summarise(cls, "mean").ret or ir.strip_sites(c.ret) == ir.strip_sites(prog.summarise(cls, "mean").ret),
              "NAN", "get.__call__", f"{c.path}:{c.fn.lineno}", f"{CLS}.__call__", f"call = {ir.show_nl(c.ret)}",
              "calling the tracker must report the window mean", "__call__ = mean")
    _get_is_mean(run, prog, cls)


def _get_is_mean(run, prog, cls):
    """get() (inherited from the tracker base class) reports the same fresh window mean."""
    owner, fn = prog.find_method(cls, "get")
    if fn is None:
        return
    g = prog.summarise(cls, "get")
    mean = prog.summarise(cls, "mean").ret
    ok = ir.strip_sites(g.ret) == ir.strip_sites(mean)
    why = ""
    if not ok:
        stored = sorted({t[1] for t in ir.subterms(g.ret) if t[0] == "field0" and ("field0", t[1]) not in ir.subterms(mean)})
        why = (f"it goes through stored state {stored} (a value kept from an earlier call is returned while its validity "
               f"test holds; this tracker never changes the fields the test looks at)") if stored else \
            f"it returns {ir.show_nl(g.ret)[:120]}"
    run.check(ok, "NAN", "get.get", f"{g.path}:{g.fn.lineno}", f"{CLS}.get", f"get = {ir.show_nl(g.ret)[:120]}",
              f"get() must report the current window mean on every call: {why}", "get = mean")


def _nan_buffer(t, k):
    """asarray([nan for _ in range(k)]) / full(k, nan) / asarray([nan] * k), in double precision"""
    if t[0] == "fn":
        for a in t[2]:
            if isinstance(a, tuple) and a and a[0] == "kw" and a[1] == "dtype":
                d = a[2]
                if d not in (("global", "builtins.float"), ("global", "numpy.float64"), ("global", "numpy.double"),
                             ("const", "float64"), ("const", "float"), ("const", "d"), ("const", "f8")):
                    return False
    def is_nan(x):
        return x == ("global", "numpy.nan") or x == ("global", "math.nan") or \
            (x[0] == "fn" and x[1] == "float" and x[2] == (("const", "nan"),))
    if t[0] == "fn" and t[1] == "asarray" and t[2]:
        a = t[2][0]
        if a[0] == "comp" and a[1] == "list" and not a[6] and is_nan(a[5]):
            it = a[3]
            return it in (("fn", "range", (k,)), ("fn", "range", (("field0", "k"),)))
        if a[0] == "op" and a[1] == "*":
            lst, n = (a[2], a[3]) if a[2][0] == "new" else (a[3], a[2])
            return lst[0] == "new" and lst[2] == "list" and len(lst[3]) == 1 and is_nan(lst[3][0]) and n == k
    if t[0] == "fn" and t[1] == "full" and len(t[2]) >= 2:
        n = t[2][0]
        while (n[0] == "fn" and n[1] == "int" and len(n[2]) == 1) or (n[0] == "res" and n[2] == "operator.index" and len(n[3]) == 1):
            n = n[2][0] if n[0] == "fn" else n[3][0]
        return n in (k, ("field0", "k")) and is_nan(t[2][1])
    return False


def _raw_moment(t):
    """E[x^2] - E[x]^2 shape: a difference whose both sides contain a square/product."""
    def squares(x):
        return [y for y in ir.subterms(x) if (y[0] == "op" and y[1] in ("**", "*")) or
                (y[0] == "fn" and y[1] in ("square", "pow"))]
    for s in ir.subterms(t):
        if s[0] == "op" and s[1] == "-" and squares(s[2]) and squares(s[3]):
            return True
    return False


_S = "ixai/utils/tracker/sliding_window.py"
_UPD_NEW = ("        if self.window_k >= self.k:\n            self.window_k = 0\n        self.sliding_window[self.window_k] = value_i\n        self.window_k += 1\n")
WITNESSES = [
    ("np.NaN (pre-repair)", [(_S, "np.nan for _", "np.NaN for _")]),
    ("wrap branch does not advance (pre-repair)", [(_S, _UPD_NEW,
        "        if self.window_k < self.k:\n            self.sliding_window[self.window_k] = value_i\n            self.window_k += 1\n        else:\n            self.window_k = 0\n            self.sliding_window[self.window_k] = value_i\n")]),
    ("np.mean instead of nanmean", [(_S, "np.nanmean(", "np.mean(")]),
    ("zero-initialised buffer", [(_S, "np.array([np.nan for _ in range(self.k)])", "np.zeros(self.k)")]),
    ("wrap one step late", [(_S, "if self.window_k >= self.k:", "if self.window_k > self.k:")]),
    ("modulo slot with reset counter cycling k+1", [(_S, _UPD_NEW,
        "        self.sliding_window[self.window_k % self.k] = value_i\n        self.window_k += 1\n        if self.window_k > self.k:\n            self.window_k = 0\n")]),
    ("falsy values become NaN", [(_S, "self.sliding_window[self.window_k] = value_i", "self.sliding_window[self.window_k] = value_i or np.nan")]),
    ("one-pass variance", [(_S, "return float(np.nanvar(self.sliding_window, axis=0))",
                            "return float(np.nanmean(self.sliding_window ** 2) - np.nanmean(self.sliding_window) ** 2)")]),
    ("position advanced by two", [(_S, "        self.window_k += 1\n", "        self.window_k += 2\n")]),
]
SILENT = [
    ("modulo ring buffer", [(_S, _UPD_NEW, "        self.sliding_window[self.window_k % self.k] = value_i\n        self.window_k += 1\n")]),
    ("np.full initialisation", [(_S, "np.array([np.nan for _ in range(self.k)])", "np.full(k, np.nan)")]),
    ("if/else form with advance in both arms", [(_S, _UPD_NEW,
        "        if self.window_k < self.k:\n            self.sliding_window[self.window_k] = value_i\n            self.window_k += 1\n        else:\n            self.sliding_window[0] = value_i\n            self.window_k = 1\n")]),
]
