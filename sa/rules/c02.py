"""C02 -- incremental PFI is the running statistic of (mean imputed loss - original loss).

 FORMULA  for every feature f of feature_names the value handed to the importance trackers under key f is
          mean([loss(y, p) for p in impute([f], x, n)]) - loss(y, model(x)), n = per-call override or the
          configured n_inner_samples; single-feature subset; all n predictions enter the mean;
 ORDER    the variance update is (contribution_f - importance_values[f])**2 read after the importance update;
 COUNT    importance and variance trackers are updated exactly once on the explain path and never on the
          first-sample path; explain <=> seen_samples >= 1; the counter grows by one per call;
 SAME     tracker operator: every tracker is a deepcopy of dynamic ? ExponentialSmoothing(alpha) : Welford.
"""
from .. import ir
from ..paths import paths, walk
from ..report import AnalysisError
from .common import dict_build
from .explcore import Inc, impute_args, check_guard_and_counter, tracker_operator, same
from .sagelib import FEATURE_NAMES, is_call_to

META = {
    "explanation": "FORMULA by term comparison (exact rational normal form, mean == sum/len) of the value stored per "
                   "feature against the reference built from the same callback results; ORDER/COUNT over all paths of "
                   "IncrementalPFI.explain_one; SAME on the constructor chain (tracker operator selection).",
    "trusted_base": ["what the trackers compute (C10, C12)", "imputers honour C06", "deterministic model and loss"],
    "assumptions": [],
}
META["explanation"] += ' HAZARD: constructs that do not mean what they look like, met in the analysed code (defaults evaluated once, class-level containers changed through self, dict.fromkeys with a shared mutable value, late-binding lambdas, truth value of objects that define __len__) are reported by every check.'
META["explanation"] += ' Round 6: DEP-C14 WIRING / RIVER and DEP-C13 PAIR; contributions held by an object of a package class are not decided.'
MIN_INSTANCES = {"FORMULA": 3, "ORDER": 1, "COUNT": 3, "SAME": 2}
CLS = "IncrementalPFI"


def check(run):
    prog = run.prog
    cls = prog.find_class(CLS)
    run.need(cls is not None, f"anchor class {CLS} vanished")
    inc = Inc(run, prog, cls)
    s, fq = inc.s, inc.fq
    E = check_guard_and_counter(inc, "COUNT", "pfi")
    tracker_operator(run, prog, cls, "SAME", "pfi.operator")
    from .explcore import defaults_resolution
    defaults_resolution(run, prog, cls, "SAME", "defaults")

    from .c06 import depends_on
    depends_on(run, "C10")
    depends_on(run, "C12", {"TYPESTATE", "NOMUT", "COPY"})
    depends_on(run, "C06", {"MERGE", "KEYS", "COUNT", "VALUE", "COPY"})
    depends_on(run, "C15", {"STORAGE", "DEFAULTS", "CTOR"}, only=lambda rule, inst: inst.startswith("IncrementalPFI"))
    depends_on(run, "C14", {"WIRING", "RIVER"})     # every evaluation asked for reaches the (current) model
    depends_on(run, "C13", {"PAIR"})                # a river metric used as loss reports the value of the single pair
    # ---- the per-feature loop --------------------------------------------------------------------
    imps = [(ev, ctx) for ev, ctx in walk(s.events) if is_call_to(ev, inc.imf, "impute")]
    run.need(imps, f"{fq} never calls the imputer")
    upd = inc.updates(inc.IT)
    if len(upd) != 1:
        run.fail("COUNT", "pfi.importance-update", inc.where(s.fn.lineno), fq, f"{len(upd)} importance updates",
                 f"the importance trackers must be updated exactly once per explained observation, found {len(upd)} sites")
        return
    uev, uctx = upd[0]
    D = uev.args[0] if uev.args else None
    db = dict_build(D, s.events) if D is not None else None
    if D is not None and (D[0] == "owned" or (D[0] == "new" and isinstance(D[2], str) and D[2].startswith("ixai."))):
        # the contributions are kept in an object of a package class (a dict subclass with behaviour, a record with a
        # dict inside): what its methods store is not followed here -- no verdict
        raise AnalysisError(f"{fq}: the per-feature contributions are held by {ir.show_nl(D)[:80]}, an object of a package class; "
                            f"this bookkeeping is not decided")
    if db is None or not db.entries:
        run.fail("FORMULA", "pfi.dict", inc.where(uev.line), fq, f"importance update with {ir.show_nl(D)[:100] if D else None}",
                 "the importance trackers are not updated with a per-feature dict of contributions")
        return
    run.check(db.over == FEATURE_NAMES and all(k == ("elem", db.lid) for k, *_ in db.entries), "FORMULA", "pfi.keys",
              inc.where(uev.line), fq, f"contribution keys over {ir.show_nl(db.over) if db.over else None}",
              f"contributions must be keyed by every name of feature_names; keys range over "
              f"{ir.show_nl(db.over) if db.over else None}", "one contribution per feature of self.feature_names")
    # the original loss
    for key, val, ectx, eev in db.entries:
        line = eev.line if eev else uev.line
        losses = [t for t in ir.subterms(val) if t[0] == "res" and t[2] == f"self.{inc.lf}"]
        orig = [t for t in losses if len(t[3]) == 2 and t[3][0] == inc.y and t[3][1][0] == "res" and
                t[3][1][2] == f"self.{inc.mf}" and t[3][1][3] == (inc.x,) and not t[4]]
        inner = [t for t in ir.subterms(val) if t[0] == "comp" and t[1] in ("list", "gen") and not t[6] and
                 t[5][0] == "res" and t[5][2] == f"self.{inc.lf}" and t[5][3] == (inc.y, ("elem", t[2])) and not t[5][4]]
        if not orig:
            run.fail("FORMULA", "pfi.original", inc.where(line), fq, f"contribution {ir.show_nl(val)[:140]}",
                     "the contribution does not subtract loss(y_i, model(x_i)) of the unperturbed prediction "
                     f"(positional loss(y_true, y_pred)); found {ir.show_nl(val)[:200]}")
            continue
        if not inner:
            run.fail("FORMULA", "pfi.mean", inc.where(line), fq, f"contribution {ir.show_nl(val)[:140]}",
                     "the contribution must average the losses of the n imputed predictions (mean over "
                     f"[loss(y_i, p) for p in predictions]); found {ir.show_nl(val)[:200]}")
            continue
        comp, preds = inner[0], inner[0][3]
        ref = ("op", "-", ("fn", "mean", (comp,)), orig[0])
        ok = same(val, ref)
        run.check(ok, "FORMULA", "pfi.contribution", inc.where(line), fq, f"contribution {ir.show_nl(val)[:160]}",
                  f"contribution must equal mean(imputed losses) - original loss; found {ir.show_nl(val)[:220]}",
                  "pfi[f] == mean([loss(y, p) for p in impute([f], x, n)]) - loss(y, model(x))")
        # the predictions are those of impute([f], x, n)
        if not (preds[0] == "res" and preds[2] == f"self.{inc.imf}.impute"):
            run.fail("FORMULA", "pfi.predictions", inc.where(line), fq, f"losses over {ir.show_nl(preds)[:100]}",
                     f"the averaged losses are not those of the imputer's predictions: {ir.show_nl(preds)[:160]}")
            continue
        pev = next((ev for ev, _ in imps if ev.res == preds), None)
        fs, xi, ns = impute_args(pev) if pev else (None, None, None)
        single = fs is not None and fs[0] == "new" and fs[2] in ("list", "set", "tuple") and fs[3] == (("elem", db.lid),)
        if fs is not None and fs[0] == "tuple" and fs[1] == (("elem", db.lid),):
            single = True
        run.check(single, "FORMULA", "pfi.subset", inc.where(pev.line if pev else line), fq,
                  f"subset {ir.show_nl(fs) if fs else None}",
                  f"only the explained feature itself may be imputed; the subset is {ir.show_nl(fs) if fs else None}",
                  "feature_subset = [f]")
        run.check(xi == inc.x, "FORMULA", "pfi.instance", inc.where(pev.line if pev else line), fq,
                  f"x_i {ir.show_nl(xi) if xi else None}", "the imputer must receive the explained instance", "x_i passed")
        run.check(ns == inc.N, "FORMULA", "pfi.n", inc.where(pev.line if pev else line), fq,
                  f"n_samples {ir.show_nl(ns) if ns else None}",
                  f"n_samples must be the per-call override if given, else the configured n_inner_samples; found "
                  f"{ir.show_nl(ns) if ns else None}", "n = override if not None else self.n_inner_samples")
    # no write to the configured n
    for ev, ctx in walk(s.events):
        if isinstance(ev, ir.Store) and ev.field == "n_inner_samples":
            run.fail("FORMULA", "pfi.n-sticky", inc.where(ev.line), fq, "explain_one overwrites self.n_inner_samples",
                     "a per-call n_inner_samples override is written to the configured attribute and sticks for later calls")
    # ---- variance: ORDER + FORMULA ----------------------------------------------------------------
    vup = inc.updates(inc.VT)
    if len(vup) != 1:
        run.fail("COUNT", "pfi.variance-update", inc.where(s.fn.lineno), fq, f"{len(vup)} variance updates",
                 f"the variance trackers must be updated exactly once per explained observation, found {len(vup)} sites")
    else:
        vev, vctx = vup[0]
        V = vev.args[0] if vev.args else None
        ok = V is not None and V[0] == "comp" and V[1] == "dict" and V[3] == FEATURE_NAMES and V[4] == ("elem", V[2]) and not V[6]
        good = False
        if ok:
            el = ("elem", V[2])
            gets = [t for t in ir.subterms(V[5]) if t[0] == "res" and t[2] == f"self.{inc.IT}.get"]
            if gets:
                ref = ("op", "**", ("op", "-", ("sub", D, el), ("sub", gets[0], el)), ("const", 2))
                good = same(V[5], ref)
                gcall = next((ev for ev, _ in walk(s.events) if isinstance(ev, ir.Call) and ev.res == gets[0]), None)
                after = gcall is not None and inc.index[id(gcall)] > inc.index[id(uev)]
                run.check(after, "ORDER", "pfi.variance-after-update", inc.where(vev.line), fq,
                          "importance read before its update",
                          "the squared deviation must use the importance value *after* this observation's update; it is "
                          "read before the importance trackers are updated", "importance_values read after the update")
        run.check(ok and good, "FORMULA", "pfi.variance", inc.where(vev.line), fq, f"variance update {ir.show_nl(V)[:160] if V else None}",
                  f"variance contribution must be (contribution_f - importance_values[f])**2 for every feature; found "
                  f"{ir.show_nl(V)[:220] if V else None}", "variances[f] = (pfi[f] - importance_values[f])**2")
    # ---- COUNT over paths ---------------------------------------------------------------------------
    ps = paths(s.events, unroll=1)
    run.analysed["paths"] += len(ps)
    bad = None
    for p in ps:
        n_i = sum(1 for e in p.events if is_call_to(e, inc.IT, "update"))
        n_v = sum(1 for e in p.events if is_call_to(e, inc.VT, "update"))
        explain = E in p.guards if E is not None else None
        cb = sum(1 for e in p.events if isinstance(e, ir.Call) and e.callee in (f"self.{inc.mf}", f"self.{inc.lf}", f"self.{inc.imf}"))
        if explain and (n_i, n_v) != (1, 1):
            bad = (p, f"explain path updates importance {n_i}x and variance {n_v}x")
        if explain is False or (E is not None and ir.negate(E) in p.guards):
            if n_i or n_v or cb:
                bad = (p, f"first-sample path performs {cb} callback calls and {n_i + n_v} tracker updates")
    run.check(bad is None, "COUNT", "pfi.lockstep", inc.where(s.fn.lineno), fq, bad[1] if bad else "lockstep",
              f"{bad[1] if bad else ''}: both trackers must be updated exactly once when explaining and the first "
              f"observation must only seed the storage", f"{len(ps)} paths: (importance, variance) updates = (1,1) iff explaining")


_P = "ixai/explainer/pfi.py"
_BASE = "ixai/explainer/base.py"
WITNESSES = [
    ("original - average", [(_P, "pfi[feature] = avg_loss - original_loss", "pfi[feature] = original_loss - avg_loss")]),
    ("median instead of mean", [(_P, "avg_loss = np.mean(losses)", "avg_loss = np.median(losses)")]),
    ("max instead of mean", [(_P, "avg_loss = np.mean(losses)", "avg_loss = max(losses)")]),
    ("divide by the configured n", [(_P, "avg_loss = np.mean(losses)", "avg_loss = sum(losses) / self.n_inner_samples")]),
    ("subset = all other features", [(_P, "feature_subset = [feature]", "feature_subset = [f for f in self.feature_names if f != feature]")]),
    ("guard > 1", [(_P, "explain = self.seen_samples >= 1", "explain = self.seen_samples > 1")]),
    ("guard >= 0", [(_P, "explain = self.seen_samples >= 1", "explain = self.seen_samples >= 0")]),
    ("variance before the importance update", [(_P, "            self._importance_trackers.update(pfi)\n            variances = {feature: (pfi[feature] - self.importance_values[feature]) ** 2\n                         for feature in self.feature_names}\n",
                                                "            variances = {feature: (pfi[feature] - self.importance_values[feature]) ** 2\n                         for feature in self.feature_names}\n            self._importance_trackers.update(pfi)\n")]),
    ("n_samples constant 1", [(_P, "n_samples=n_inner_samples\n", "n_samples=1\n")]),
    ("loss arguments swapped", [(_P, "losses = [self._loss_function(y_i, prediction) for prediction in predictions]", "losses = [self._loss_function(prediction, y_i) for prediction in predictions]")]),
    ("tracker classes swapped", [(_BASE, "        if dynamic_setting:\n            assert", "        if not dynamic_setting:\n            assert")]),
    ("alpha replaced by a constant", [(_BASE, "base_tracker = ExponentialSmoothingTracker(alpha=self._smoothing_alpha)", "base_tracker = ExponentialSmoothingTracker(alpha=0.01)")]),
    ("loss of the mean prediction", [(_P, "                losses = [self._loss_function(y_i, prediction) for prediction in predictions]\n                avg_loss = np.mean(losses)\n",
                                      "                avg_loss = self._loss_function(y_i, {k: sum(p[k] for p in predictions) / len(predictions) for k in predictions[0]})\n")]),
    ("sticky per-call n", [(_P, "            if n_inner_samples is None:\n                n_inner_samples = self.n_inner_samples\n", "            if n_inner_samples is not None:\n                self.n_inner_samples = n_inner_samples\n            n_inner_samples = self.n_inner_samples\n")]),
    ("importance and variance share one tracker", [(_BASE, "self._variance_trackers: MultiValueTracker = MultiValueTracker(copy.deepcopy(base_tracker))", "self._variance_trackers: MultiValueTracker = self._importance_trackers")]),
    ("last prediction dropped", [(_P, "for prediction in predictions]", "for prediction in predictions[:-1]]")]),
    ("seen counter += 2", [(_P, "        self.seen_samples += 1\n", "        self.seen_samples += 2\n")]),
]
SILENT = [
    ("sum/len instead of np.mean", [(_P, "avg_loss = np.mean(losses)", "avg_loss = sum(losses) / len(losses)")]),
    ("dict comprehension", [(_P, "            pfi = {}\n            for feature in self.feature_names:\n                feature_subset = [feature]\n                predictions = self._imputer.impute(\n                    feature_subset=feature_subset,\n                    x_i=x_i,\n                    n_samples=n_inner_samples\n                )\n                losses = [self._loss_function(y_i, prediction) for prediction in predictions]\n                avg_loss = np.mean(losses)\n                pfi[feature] = avg_loss - original_loss\n",
                             "            pfi = {feature: np.mean([self._loss_function(y_i, p) for p in self._imputer.impute(feature_subset=[feature], x_i=x_i, n_samples=n_inner_samples)]) - original_loss\n                   for feature in self.feature_names}\n")]),
    ("positional imputer arguments", [(_P, "                predictions = self._imputer.impute(\n                    feature_subset=feature_subset,\n                    x_i=x_i,\n                    n_samples=n_inner_samples\n                )\n", "                predictions = self._imputer.impute(feature_subset, x_i, n_inner_samples)\n")]),
]
