"""COPY -- the copy / pickle protocol of a class keeps every part of its state (shared clause of the properties that
rely on `copy.deepcopy` / pickling of trackers, storages, imputers and loss wrappers).

Python's default protocol copies every instance attribute deeply (one memo per copy operation, so that objects
reachable along two paths stay one object in the copy).  A class may replace it with `__deepcopy__`, `__copy__`,
`__getstate__` / `__setstate__` or `__reduce__`; the hook that is in effect for a concrete class is the first one found
along its MRO, so a hook written for a base class also decides what happens to the attributes of its subclasses.

The hook's statements are read as an abstract description of what the copy gets for each attribute:
    deep          copy.deepcopy(self.a, memo)                     (what the default protocol does)
    deep-nomemo   copy.deepcopy(self.a)                           (a private memo: sharing inside the copied graph is lost)
    shallow       the very same object (clone.a = self.a, copy.copy(self), clone.__dict__.update(self.__dict__))
    rebuilt       a new container around the same / shallow-copied / deep-copied elements
    missing       nothing (object made with __new__ and never assigned; name left out of the pickled state)
and an attribute is refuted when the class itself builds a container / object there, some method changes that object
in place, and the copy shares it or loses it.  For `__setstate__` hooks that rebuild the object through `__init__`,
an attribute that is not restored must be fully determined by constructor arguments that are restored (no default taken
instead of the configured value, no fresh random draw, no state that moves after construction).  Shapes that are not
covered are answered "not decided", never "holds".
"""
import ast

from .. import ir
from ..report import AnalysisError

HOOKS = ("__deepcopy__", "__copy__", "__getstate__", "__setstate__", "__reduce__", "__reduce_ex__",
         "__getnewargs__", "__getnewargs_ex__")
READ_ONLY = {"get", "keys", "values", "items", "index", "count", "copy", "__getitem__", "__contains__", "__len__",
             "__iter__", "mean", "sum", "min", "max", "tolist", "any", "all", "get_data", "get_normalized", "impute",
             "predict_one", "predict_proba_one", "predict", "predict_proba", "debug_one", "__call__"}


class Undecided(Exception):
    pass


def _hook(prog, cls, name, after=None):
    """(owner class, function) of the hook in effect for cls (optionally: the next one after `after` in the MRO)."""
    chain = prog.mro(cls)
    if after is not None:
        chain = chain[chain.index(after) + 1:]
    for k in chain:
        if name in k.methods:
            return k, k.methods[name]
    return None, None


def _self_name(fn):
    return fn.args.args[0].arg if fn.args.args else "self"


def _is_self_attr(n, me):
    return isinstance(n, ast.Attribute) and isinstance(n.value, ast.Name) and n.value.id == me


def _dotted(n):
    try:
        return ast.unparse(n)
    except Exception:
        return ""


def instance_state(prog, cls):
    """{attribute: constructor value term} of the top-level attributes of instances of cls."""
    try:
        fields = prog.summarise(cls, "__init__").fields
    except ir.Unsupported as e:
        raise Undecided(f"constructor of {cls.name} is not followed: {e}")
    out = {}
    for f, v in fields.items():
        top = f.split(".")[0]
        if top == f:
            out[f] = v
        else:
            out.setdefault(top, ("new", "?", "owned", ()))
    return out


def _kind(v):
    if v[0] in ("new", "comp", "res"):
        return "object"
    if v[0] == "fn" and v[1] in ("asarray", "array", "full", "zeros", "ones", "empty", "arange", "list", "dict", "set",
                                 "deque", "sorted", "bytearray", "copy", "deepcopy"):
        return "object"             # a buffer / container built by a library function
    if v[0] == "gate":
        a, b = _kind(v[2]), _kind(v[3])
        return "object" if "object" in (a, b) else a
    return "value"


def mutation(prog, cls, attr):
    """'yes' / 'no' / 'maybe': is the object held in self.<attr> changed in place by a method of the hierarchy?"""
    verdict = "no"
    units = []
    for k in prog.mro(cls):
        for mname, fn in k.methods.items():
            if mname in HOOKS or not fn.args.args:
                continue
            units.append((k, mname, fn, _self_name(fn)))
    # package-level helper functions that are handed the instance (`_push(self, value)`): their parameter is the instance
    seen_helpers = set()
    for k, mname, fn, me in list(units):
        for n in ast.walk(fn):
            if isinstance(n, ast.Call) and isinstance(n.func, ast.Name) and any(isinstance(a, ast.Name) and a.id == me for a in n.args):
                r = prog.resolve_name(k.module, n.func.id)
                if r and r[0] == "func" and id(r[1][1]) not in seen_helpers:
                    helper = r[1][1]
                    pos = next(i for i, a in enumerate(n.args) if isinstance(a, ast.Name) and a.id == me)
                    params = helper.args.posonlyargs + helper.args.args
                    if pos < len(params):
                        seen_helpers.add(id(helper))
                        units.append((k, mname, helper, params[pos].arg))
    for k, mname, fn, me in units:
        if True:
            parents = {}
            for n in ast.walk(fn):
                for ch in ast.iter_child_nodes(n):
                    parents[ch] = n
            for n in ast.walk(fn):
                if not (_is_self_attr(n, me) and n.attr == attr):
                    continue
                par = parents.get(n)
                if isinstance(n.ctx, (ast.Store, ast.Del)):
                    if isinstance(par, ast.AugAssign):
                        verdict = "yes" if mname != "__init__" else verdict     # in place for containers
                    continue
                if isinstance(par, ast.Attribute) and par.value is n:
                    gp = parents.get(par)
                    if isinstance(gp, ast.Call) and gp.func is par:
                        if par.attr not in READ_ONLY:
                            return "yes"
                        continue
                    if isinstance(par.ctx, (ast.Store, ast.Del)):
                        return "yes"
                    continue                                    # reading a component
                if isinstance(par, ast.Subscript) and par.value is n:
                    if isinstance(par.ctx, (ast.Store, ast.Del)):
                        return "yes"
                    gp = parents.get(par)
                    if isinstance(gp, ast.AugAssign) and gp.target is par:
                        return "yes"
                    continue
                if isinstance(par, ast.Call) and n in par.args:
                    f = _dotted(par.func)
                    if f in ("len", "copy.deepcopy", "deepcopy", "copy.copy", "list", "tuple", "set", "dict", "sorted", "sum",
                             "max", "min", "iter", "enumerate", "zip", "str", "repr", "float", "int", "bool", "isinstance",
                             "np.mean", "numpy.mean", "np.asarray", "numpy.asarray", "id", "type"):
                        continue
                    verdict = "maybe"                           # handed to something that might change it
                    continue
                alias = None
                if isinstance(par, (ast.Assign, ast.AnnAssign)) and getattr(par, "value", None) is n:
                    t = par.targets[0] if isinstance(par, ast.Assign) and len(par.targets) == 1 else getattr(par, "target", None)
                    alias = t.id if isinstance(t, ast.Name) else None
                    if alias is None:
                        verdict = "maybe"
                elif isinstance(par, ast.Tuple) and isinstance(parents.get(par), ast.Assign) and parents[par].value is par and \
                        len(parents[par].targets) == 1 and isinstance(parents[par].targets[0], ast.Tuple) and \
                        len(parents[par].targets[0].elts) == len(par.elts):
                    t = parents[par].targets[0].elts[par.elts.index(n)]
                    alias = t.id if isinstance(t, ast.Name) else None
                    if alias is None:
                        verdict = "maybe"
                if alias is not None:
                    # a second name for the object: what is done through that name is done to the object
                    for u in ast.walk(fn):
                        if not (isinstance(u, ast.Name) and u.id == alias and isinstance(u.ctx, ast.Load)):
                            continue
                        up = parents.get(u)
                        if isinstance(up, ast.Subscript) and up.value is u and isinstance(up.ctx, (ast.Store, ast.Del)):
                            return "yes"
                        if isinstance(up, ast.Subscript) and up.value is u and isinstance(parents.get(up), ast.AugAssign) and \
                                parents[up].target is up:
                            return "yes"
                        if isinstance(up, ast.Attribute) and up.value is u and isinstance(parents.get(up), ast.Call) and \
                                parents[up].func is up and up.attr not in READ_ONLY:
                            return "yes"
                        if isinstance(up, ast.Call) and u in up.args and _dotted(up.func) not in ("len", "list", "tuple", "sum", "max", "min", "sorted", "np.mean", "numpy.mean"):
                            verdict = "maybe"
        # an object the constructor receives and keeps is changed by whoever else holds it: not this class's state
    return verdict


# ---------------------------------------------------------------------------------------------------------------
# __deepcopy__
# ---------------------------------------------------------------------------------------------------------------
def _classify_value(v, me, memo, attr=None):
    """What `clone.attr = v` gives the clone (see module docstring)."""
    d = _dotted(v)
    if isinstance(v, ast.Call):
        f = _dotted(v.func)
        if f in ("copy.deepcopy", "deepcopy") and v.args and _is_self_attr(v.args[0], me):
            has_memo = len(v.args) >= 2 or any(k.arg == "memo" for k in v.keywords)
            return "deep" if has_memo else "deep-nomemo"
        if f in ("copy.copy", "list", "set", "dict", "tuple", "frozenset", "sorted") and v.args and _is_self_attr(v.args[0], me):
            return ("rebuilt", "same-elements")
        if isinstance(v.func, ast.Attribute) and v.func.attr == "copy" and _is_self_attr(v.func.value, me) and not v.args:
            return ("rebuilt", "same-elements")
    if _is_self_attr(v, me):
        return "shallow"
    if isinstance(v, ast.Subscript) and _is_self_attr(v.value, me) and isinstance(v.slice, ast.Slice):
        return ("rebuilt", "same-elements")
    if isinstance(v, (ast.DictComp, ast.ListComp, ast.SetComp)) and len(v.generators) == 1:
        g = v.generators[0]
        src = g.iter
        if isinstance(src, ast.Call) and isinstance(src.func, ast.Attribute) and src.func.attr in ("items", "values"):
            src = src.func.value
        if _is_self_attr(src, me):
            elt = v.value if isinstance(v, ast.DictComp) else v.elt
            if isinstance(elt, ast.Call) and _dotted(elt.func) in ("copy.deepcopy", "deepcopy"):
                has_memo = len(elt.args) >= 2 or any(k.arg == "memo" for k in elt.keywords)
                return ("rebuilt", "deep-elements" if has_memo else "deep-nomemo-elements")
            if isinstance(elt, ast.Call) and _dotted(elt.func) in ("copy.copy",):
                return ("rebuilt", "shallow-copied-elements")
            if isinstance(elt, ast.Name):
                return ("rebuilt", "same-elements")
    if isinstance(v, ast.Constant):
        return "value"
    return "unknown"


def deepcopy_effect(prog, cls, owner, fn, depth=0):
    """(per-attribute status, default status for the other attributes)."""
    if depth > 3:
        raise Undecided("chain of __deepcopy__ hooks too long")
    me = _self_name(fn)
    memo = fn.args.args[1].arg if len(fn.args.args) > 1 else "memo"
    clone, default, state = None, None, {}
    body = [s for s in fn.body if not (isinstance(s, ast.Expr) and isinstance(s.value, ast.Constant))]

    def new_object(v):
        d = _dotted(v)
        return isinstance(v, ast.Call) and isinstance(v.func, ast.Attribute) and v.func.attr == "__new__"

    def handle_store(attr_name, value):
        state[attr_name] = _classify_value(value, me, memo)

    def per_item_loop(st):
        """for name, value in self.__dict__.items(): ..."""
        it = st.iter
        if not (isinstance(it, ast.Call) and isinstance(it.func, ast.Attribute) and it.func.attr == "items" and not it.args):
            return False
        src = _dotted(it.func.value)
        if src not in (f"{me}.__dict__", f"vars({me})"):
            return False
        if not (isinstance(st.target, ast.Tuple) and len(st.target.elts) == 2 and
                all(isinstance(e, ast.Name) for e in st.target.elts)):
            return False
        kname, vname = st.target.elts[0].id, st.target.elts[1].id

        def item_effect(s):
            # setattr(clone, name, X) / clone.__dict__[name] = X
            val = None
            if isinstance(s, ast.Expr) and isinstance(s.value, ast.Call) and _dotted(s.value.func) == "setattr" and \
                    len(s.value.args) == 3 and _dotted(s.value.args[0]) == clone and _dotted(s.value.args[1]) == kname:
                val = s.value.args[2]
            elif isinstance(s, ast.Assign) and len(s.targets) == 1 and isinstance(s.targets[0], ast.Subscript) and \
                    _dotted(s.targets[0].value) == f"{clone}.__dict__" and _dotted(s.targets[0].slice) == kname:
                val = s.value
            if val is None:
                return None
            if isinstance(val, ast.Name) and val.id == vname:
                return "shallow"
            if isinstance(val, ast.Call) and _dotted(val.func) in ("copy.deepcopy", "deepcopy") and val.args and \
                    _dotted(val.args[0]) == vname:
                has_memo = len(val.args) >= 2 or any(k.arg == "memo" for k in val.keywords)
                return "deep" if has_memo else "deep-nomemo"
            if isinstance(val, ast.Call) and _dotted(val.func) == "copy.copy" and val.args and _dotted(val.args[0]) == vname:
                return ("rebuilt", "same-elements")
            return "unknown"

        def names_of(test):
            if isinstance(test, ast.Compare) and len(test.ops) == 1 and _dotted(test.left) == kname:
                c = test.comparators[0]
                if isinstance(test.ops[0], ast.Eq) and isinstance(c, ast.Constant):
                    return [c.value]
                if isinstance(test.ops[0], ast.In) and isinstance(c, (ast.Tuple, ast.List, ast.Set)) and \
                        all(isinstance(e, ast.Constant) for e in c.elts):
                    return [e.value for e in c.elts]
            return None
        nonlocal default
        stmts = list(st.body)
        if len(stmts) == 1 and isinstance(stmts[0], ast.If):
            br = stmts[0]
            names = names_of(br.test)
            if names is None or len(br.body) != 1 or len(br.orelse) != 1:
                return False
            special, other = br.body[0], br.orelse[0]
            # `clone.x = value` in the named branch
            if isinstance(special, ast.Assign) and len(special.targets) == 1 and isinstance(special.targets[0], ast.Attribute) \
                    and _dotted(special.targets[0].value) == clone and isinstance(special.value, ast.Name) and \
                    special.value.id == vname:
                eff = "shallow"
            else:
                eff = item_effect(special)
            oth = item_effect(other)
            if eff is None or oth is None:
                return False
            for n in names:
                state[n] = eff
            default = oth
            return True
        if len(stmts) == 1:
            eff = item_effect(stmts[0])
            if eff is None:
                return False
            default = eff
            return True
        return False

    for st in body:
        if isinstance(st, ast.Assign) and len(st.targets) == 1 and isinstance(st.targets[0], ast.Name):
            name, v = st.targets[0].id, st.value
            if clone is None or name == clone:
                dv = _dotted(v)
                if dv in (f"copy.copy({me})",):
                    clone, default = name, "shallow"
                    continue
                if new_object(v):
                    clone, default = name, "missing"
                    continue
                if isinstance(v, ast.Call) and isinstance(v.func, ast.Attribute) and v.func.attr == "__deepcopy__" and \
                        isinstance(v.func.value, ast.Call) and _dotted(v.func.value.func) == "super":
                    o2, f2 = _hook(prog, cls, "__deepcopy__", after=owner)
                    if f2 is None:
                        raise Undecided("super().__deepcopy__ without a base hook")
                    state, default = deepcopy_effect(prog, cls, o2, f2, depth + 1)
                    clone = name
                    continue
            if name in (f"{me}",):
                raise Undecided("self rebound in __deepcopy__")
            # other locals (cls = self.__class__) are fine when they are not the clone
            if clone is None or name != clone:
                if any(_dotted(x).startswith((clone or "\0") + ".") for x in ast.walk(v) if isinstance(x, ast.Attribute)):
                    pass
                continue
        if clone is None:
            if isinstance(st, ast.Return):
                dv = _dotted(st.value)
                if dv == f"copy.copy({me})":
                    return {}, "shallow"
                if dv == me:
                    return {}, "shallow"
            raise Undecided(f"{owner.name}.__deepcopy__: the object that is returned is not built in a recognised way")
        if isinstance(st, ast.Assign) and len(st.targets) == 1:
            t = st.targets[0]
            if isinstance(t, ast.Subscript) and _dotted(t.value) == memo:
                continue                                            # memo[id(self)] = clone
            if isinstance(t, ast.Attribute) and _dotted(t.value) == clone:
                if t.attr == "__dict__":
                    dv = _dotted(st.value)
                    if dv.startswith("copy.deepcopy(") and f"{me}.__dict__" in dv:
                        default = "deep" if memo in dv else "deep-nomemo"
                        continue
                    raise Undecided(f"{owner.name}.__deepcopy__ assigns __dict__ in a way that is not followed")
                handle_store(t.attr, st.value)
                continue
            raise Undecided(f"{owner.name}.__deepcopy__: statement at line {st.lineno} is not followed")
        if isinstance(st, ast.Expr) and isinstance(st.value, ast.Call):
            c = st.value
            f = _dotted(c.func)
            if f == "setattr" and len(c.args) == 3 and _dotted(c.args[0]) == clone and isinstance(c.args[1], ast.Constant):
                handle_store(c.args[1].value, c.args[2])
                continue
            if f == f"{clone}.__dict__.update" and len(c.args) == 1:
                dv = _dotted(c.args[0])
                if dv in (f"{me}.__dict__", f"vars({me})"):
                    default = "shallow"
                    continue
                if dv.startswith("copy.deepcopy(") and (f"{me}.__dict__" in dv or f"vars({me})" in dv):
                    default = "deep" if f", {memo}" in dv or f"memo={memo}" in dv else "deep-nomemo"
                    continue
            raise Undecided(f"{owner.name}.__deepcopy__: call at line {st.lineno} is not followed")
        if isinstance(st, ast.For) and per_item_loop(st):
            continue
        if isinstance(st, ast.For):
            got = _element_loop(st, clone, me)
            if got is not None:
                state[got[0]] = got[1]
                continue
            # a loop that fills an attribute of the clone element by element: that attribute is not decided
            touched = {t.value.attr for n in ast.walk(st) for t in ([n.targets[0]] if isinstance(n, ast.Assign) else [])
                       if isinstance(t, ast.Subscript) and isinstance(t.value, ast.Attribute) and _dotted(t.value.value) == clone}
            if touched:
                for a in touched:
                    state[a] = "unknown"
                continue
            raise Undecided(f"{owner.name}.__deepcopy__: loop at line {st.lineno} is not followed")
        if isinstance(st, ast.Return):
            if _dotted(st.value) != clone:
                raise Undecided(f"{owner.name}.__deepcopy__ returns {_dotted(st.value)[:40]}")
            continue
        if isinstance(st, ast.If):
            raise Undecided(f"{owner.name}.__deepcopy__: conditional copying at line {st.lineno} is not followed")
        raise Undecided(f"{owner.name}.__deepcopy__: statement at line {st.lineno} is not followed")
    return state, default


def _element_loop(st, clone, me):
    """for k, e in self.A.items(): v = <copy of something>; [v.x = e.x ...]; clone.A[k] = v
    -> (A, status) with status one of the rebuilt kinds, or ("rebuilt", ("carried", attrs)) when the new element is not
    a copy of the element it replaces but another object onto which some attributes of that element are carried."""
    it = st.iter
    if not (isinstance(it, ast.Call) and isinstance(it.func, ast.Attribute) and it.func.attr == "items" and
            _is_self_attr(it.func.value, me) and isinstance(st.target, ast.Tuple) and len(st.target.elts) == 2 and
            all(isinstance(e, ast.Name) for e in st.target.elts)):
        return None
    attr = it.func.value.attr
    kname, ename = st.target.elts[0].id, st.target.elts[1].id
    new_var, source, carried = None, None, set()
    for b in st.body:
        if isinstance(b, ast.Assign) and len(b.targets) == 1:
            t, v = b.targets[0], b.value
            if isinstance(t, ast.Name) and new_var is None and isinstance(v, ast.Call) and \
                    _dotted(v.func) in ("copy.copy", "copy.deepcopy", "deepcopy") and v.args:
                new_var, source = t.id, (_dotted(v.func), _dotted(v.args[0]), len(v.args) >= 2 or bool(v.keywords))
                continue
            if isinstance(t, ast.Attribute) and new_var and _dotted(t.value) == new_var and isinstance(v, ast.Attribute) and \
                    _dotted(v.value) == ename and v.attr == t.attr:
                carried.add(t.attr)
                continue
            if isinstance(t, ast.Subscript) and _dotted(t.value) == f"{clone}.{attr}" and _dotted(t.slice) == kname:
                if isinstance(v, ast.Name) and v.id == new_var and source is not None:
                    fn_, src, has_memo = source
                    if src == ename:
                        if fn_ == "copy.copy":
                            return attr, ("rebuilt", "shallow-copied-elements")
                        return attr, ("rebuilt", "deep-elements" if has_memo else "deep-nomemo-elements")
                    return attr, ("rebuilt", ("carried", tuple(sorted(carried)), src))
                if isinstance(v, ast.Name) and v.id == ename:
                    return attr, ("rebuilt", "same-elements")
                return None
        return None
    return None


def _carried_loss(prog, carried):
    """An attribute that every package class having the carried attributes also has, and that moves after construction."""
    lost = None
    for k in prog.all_classes():
        if any("abstractmethod" in ast.unparse(d) for c in prog.mro(k) for m in c.methods.values() for d in m.decorator_list
               if prog.find_method(k, m.name)[1] is m):
            continue                    # an abstract class has no instances
        try:
            st = instance_state(prog, k)
        except Undecided:
            continue
        if not carried or not set(carried) <= set(st):
            continue
        extra = [a for a in st if a not in carried and (_reassigned(prog, k, a) or mutation(prog, k, a) == "yes")]
        if not extra:
            return None
        lost = lost or (k.name, extra[0])
    return lost


# ---------------------------------------------------------------------------------------------------------------
# __getstate__ / __setstate__
# ---------------------------------------------------------------------------------------------------------------
def _const_names(prog, cls, node, me):
    """String constants of a tuple / list expression, following `self.X` / `Class.X` to class-level constants."""
    if isinstance(node, (ast.Tuple, ast.List, ast.Set)) and all(isinstance(e, ast.Constant) and isinstance(e.value, str)
                                                                 for e in node.elts):
        return [e.value for e in node.elts]
    if isinstance(node, ast.BinOp) and isinstance(node.op, ast.Add):
        a, b = _const_names(prog, cls, node.left, me), _const_names(prog, cls, node.right, me)
        return a + b if a is not None and b is not None else None
    if isinstance(node, ast.Attribute) and isinstance(node.value, ast.Name):
        holder = cls if node.value.id in (me, "cls") else prog.find_class(node.value.id)
        if holder is None:
            return None
        for k in prog.mro(holder):
            if node.attr in k.class_attrs:
                return _const_names(prog, k, k.class_attrs[node.attr], me)
    return None


def getstate_names(prog, cls, owner, fn, depth=0):
    """("all", excluded, added) or ("names", set)"""
    if depth > 3:
        raise Undecided("chain of __getstate__ hooks too long")
    me = _self_name(fn)
    var, kind, names, excluded = None, None, set(), set()
    body = [s for s in fn.body if not (isinstance(s, ast.Expr) and isinstance(s.value, ast.Constant))]

    def whole_dict(v):
        d = _dotted(v)
        return d in (f"{me}.__dict__.copy()", f"dict({me}.__dict__)", f"dict(vars({me}))", f"vars({me}).copy()",
                     f"{{**{me}.__dict__}}", f"{{**vars({me})}}", f"{me}.__dict__")

    def display(v):
        if isinstance(v, ast.Dict) and all(isinstance(k, ast.Constant) and isinstance(k.value, str) for k in v.keys):
            return {k.value for k in v.keys}
        if isinstance(v, ast.Call) and _dotted(v.func) == "dict" and not v.args and all(k.arg for k in v.keywords):
            return {k.arg for k in v.keywords}
        return None

    def filtered(v):
        """{n: x for n, x in vars(self).items() if n != 'a' / n not in (...)}"""
        if not (isinstance(v, ast.DictComp) and len(v.generators) == 1):
            return None
        g = v.generators[0]
        if _dotted(g.iter) not in (f"vars({me}).items()", f"{me}.__dict__.items()"):
            return None
        if not (isinstance(g.target, ast.Tuple) and len(g.target.elts) == 2):
            return None
        k = _dotted(g.target.elts[0])
        if _dotted(v.key) != k or _dotted(v.value) != _dotted(g.target.elts[1]):
            return None
        ex = set()
        for test in g.ifs:
            if isinstance(test, ast.Compare) and len(test.ops) == 1 and _dotted(test.left) == k:
                c = test.comparators[0]
                if isinstance(test.ops[0], ast.NotEq) and isinstance(c, ast.Constant):
                    ex.add(c.value)
                    continue
                if isinstance(test.ops[0], ast.NotIn):
                    got = _const_names(prog, cls, c, me)
                    if got is not None:
                        ex |= set(got)
                        continue
            return None
        return ex
    for st in body:
        if isinstance(st, (ast.Assign, ast.AnnAssign)) and isinstance(getattr(st, "targets", [getattr(st, "target", None)])[0], ast.Name):
            tname = (st.targets[0] if isinstance(st, ast.Assign) else st.target).id
            v = st.value
            if var is None or tname == var:
                if whole_dict(v):
                    var, kind = tname, "all"
                    continue
                ex = filtered(v)
                if ex is not None:
                    var, kind, excluded = tname, "all", set(ex)
                    continue
                d = display(v)
                if d is not None:
                    var, kind, names = tname, "names", set(d)
                    continue
                if isinstance(v, ast.Call) and isinstance(v.func, ast.Attribute) and v.func.attr == "__getstate__" and \
                        isinstance(v.func.value, ast.Call) and _dotted(v.func.value.func) == "super":
                    o2, f2 = _hook(prog, cls, "__getstate__", after=owner)
                    if f2 is None:
                        var, kind = tname, "all"        # object.__getstate__ (3.11+): the instance dict
                        continue
                    got = getstate_names(prog, cls, o2, f2, depth + 1)
                    var = tname
                    if got[0] == "all":
                        kind, excluded, names = "all", set(got[1]), set(got[2])
                    else:
                        kind, names = "names", set(got[1])
                    continue
                if isinstance(v, ast.Call) and _dotted(v.func) == "dict" and len(v.args) == 1 and _dotted(v.args[0]) == var:
                    continue
            continue                                        # other locals
        if var is None and isinstance(st, ast.Return):
            if whole_dict(st.value):
                return ("all", set(), set())
            d = display(st.value)
            if d is not None:
                return ("names", set(d))
            ex = filtered(st.value)
            if ex is not None:
                return ("all", set(ex), set())
            raise Undecided(f"{owner.name}.__getstate__ returns {_dotted(st.value)[:50]}")
        if var is None:
            raise Undecided(f"{owner.name}.__getstate__: statement at line {st.lineno} is not followed")
        if isinstance(st, ast.Assign) and len(st.targets) == 1 and isinstance(st.targets[0], ast.Subscript) and \
                _dotted(st.targets[0].value) == var:
            key = st.targets[0].slice
            if isinstance(key, ast.Constant) and isinstance(key.value, str):
                names.add(key.value)
                excluded.discard(key.value)
                continue
            raise Undecided(f"{owner.name}.__getstate__ writes a computed key at line {st.lineno}")
        if isinstance(st, ast.Delete) and all(isinstance(t, ast.Subscript) and _dotted(t.value) == var and
                                              isinstance(t.slice, ast.Constant) for t in st.targets):
            for t in st.targets:
                excluded.add(t.slice.value)
                names.discard(t.slice.value)
            continue
        if isinstance(st, ast.Expr) and isinstance(st.value, ast.Call):
            c = st.value
            f = _dotted(c.func)
            if f == f"{var}.pop" and c.args and isinstance(c.args[0], ast.Constant):
                excluded.add(c.args[0].value)
                names.discard(c.args[0].value)
                continue
            if f == f"{var}.update":
                if not c.args and all(k.arg for k in c.keywords):
                    names |= {k.arg for k in c.keywords}
                    excluded -= {k.arg for k in c.keywords}
                    continue
                if len(c.args) == 1 and display(c.args[0]) is not None and not c.keywords:
                    names |= display(c.args[0])
                    excluded -= display(c.args[0])
                    continue
            raise Undecided(f"{owner.name}.__getstate__: call at line {st.lineno} is not followed")
        if isinstance(st, ast.For) and isinstance(st.target, ast.Name) and len(st.body) == 1:
            got = _const_names(prog, cls, st.iter, me)
            b = st.body[0]
            if got is not None and isinstance(b, ast.Assign) and len(b.targets) == 1 and isinstance(b.targets[0], ast.Subscript) \
                    and _dotted(b.targets[0].value) == var and _dotted(b.targets[0].slice) == st.target.id:
                names |= set(got)
                excluded -= set(got)
                continue
            raise Undecided(f"{owner.name}.__getstate__: loop at line {st.lineno} is not followed")
        if isinstance(st, ast.Return):
            if _dotted(st.value) != var:
                raise Undecided(f"{owner.name}.__getstate__ returns {_dotted(st.value)[:50]}")
            continue
        raise Undecided(f"{owner.name}.__getstate__: statement at line {st.lineno} is not followed")
    if kind == "all":
        return ("all", excluded, names)
    return ("names", names)


def setstate_effect(prog, cls, owner, fn, depth=0):
    """dict: same_names (state entries restored under their own names), restored (attribute names set explicitly),
    rebuilt (attributes given a fresh object), init_params (None or the constructor parameters passed on), keys_used."""
    if depth > 3:
        raise Undecided("chain of __setstate__ hooks too long")
    me = _self_name(fn)
    st_name = fn.args.args[1].arg if len(fn.args.args) > 1 else "state"
    eff = {"same_names": False, "restored": set(), "rebuilt": set(), "init_params": None}
    body = [s for s in fn.body if not (isinstance(s, ast.Expr) and isinstance(s.value, ast.Constant))]

    def from_state(v):
        """v reads one entry of the state"""
        for n in ast.walk(v):
            if isinstance(n, ast.Subscript) and _dotted(n.value) == st_name:
                return True
            if isinstance(n, ast.Call) and _dotted(n.func) in (f"{st_name}.pop", f"{st_name}.get"):
                return True
        return False
    for st in body:
        if isinstance(st, ast.Assign) and len(st.targets) == 1:
            t, v = st.targets[0], st.value
            if isinstance(t, ast.Name) and t.id == st_name and _dotted(v) in (f"dict({st_name})", f"{st_name}.copy()"):
                continue
            if _is_self_attr(t, me):
                if t.attr == "__dict__":
                    if _dotted(v) in (st_name, f"dict({st_name})", f"{st_name}.copy()"):
                        eff["same_names"] = True
                        continue
                    raise Undecided(f"{owner.name}.__setstate__ assigns __dict__ at line {st.lineno}")
                if from_state(v):
                    eff["restored"].add(t.attr)
                else:
                    eff["rebuilt"].add(t.attr)
                continue
            if isinstance(t, ast.Name):
                continue
            raise Undecided(f"{owner.name}.__setstate__: statement at line {st.lineno} is not followed")
        if isinstance(st, ast.Expr) and isinstance(st.value, ast.Call):
            c = st.value
            f = _dotted(c.func)
            if f == f"{me}.__dict__.update" and len(c.args) == 1 and _dotted(c.args[0]) == st_name:
                eff["same_names"] = True
                continue
            if f == f"{me}.__init__":
                if c.args or any(k.arg is None for k in c.keywords):
                    # positional arguments: names of the constructor's parameters in order
                    _, init = prog.find_method(cls, "__init__")
                    pn = [a.arg for a in init.args.args][1:] if init is not None else []
                    eff["init_params"] = set(pn[:len(c.args)]) | {k.arg for k in c.keywords if k.arg}
                else:
                    eff["init_params"] = {k.arg for k in c.keywords}
                continue
            if isinstance(c.func, ast.Attribute) and c.func.attr == "__setstate__" and isinstance(c.func.value, ast.Call) and \
                    _dotted(c.func.value.func) == "super":
                o2, f2 = _hook(prog, cls, "__setstate__", after=owner)
                if f2 is None:
                    eff["same_names"] = True
                    continue
                sub = setstate_effect(prog, cls, o2, f2, depth + 1)
                eff["same_names"] |= sub["same_names"]
                eff["restored"] |= sub["restored"]
                eff["rebuilt"] |= sub["rebuilt"]
                if sub["init_params"] is not None:
                    eff["init_params"] = set(sub["init_params"])
                continue
            # self.attr.extend(state[...]) / update / |=
            if isinstance(c.func, ast.Attribute) and _is_self_attr(c.func.value, me) and \
                    c.func.attr in ("extend", "update", "extendleft") and len(c.args) == 1 and from_state(c.args[0]):
                eff["restored"].add(c.func.value.attr)
                continue
            if f == "setattr" and len(c.args) == 3 and _dotted(c.args[0]) == me and isinstance(c.args[1], ast.Constant) and \
                    from_state(c.args[2]):
                eff["restored"].add(c.args[1].value)
                continue
            raise Undecided(f"{owner.name}.__setstate__: call at line {st.lineno} ({f}) is not followed")
        if isinstance(st, ast.For) and isinstance(st.iter, ast.Call) and _dotted(st.iter.func) == f"{st_name}.items" and \
                isinstance(st.target, ast.Tuple) and len(st.target.elts) == 2 and len(st.body) == 1:
            k, v = _dotted(st.target.elts[0]), _dotted(st.target.elts[1])
            b = st.body[0]
            if isinstance(b, ast.Expr) and isinstance(b.value, ast.Call) and _dotted(b.value.func) == "setattr" and \
                    [_dotted(a) for a in b.value.args] == [me, k, v]:
                eff["same_names"] = True
                continue
            raise Undecided(f"{owner.name}.__setstate__: loop at line {st.lineno} is not followed")
        raise Undecided(f"{owner.name}.__setstate__: statement at line {st.lineno} is not followed")
    return eff


# ---------------------------------------------------------------------------------------------------------------
def _has_descriptor(prog, cls, name):
    for k in prog.mro(cls):
        if name in k.class_attrs and isinstance(k.class_attrs[name], ast.Call):
            return True
        m = k.methods.get(name)
        if m is not None and any(ast.unparse(d) == "property" for d in m.decorator_list):
            return True
    return False


def copy_protocol(run, prog, cls, rule="COPY"):
    """The clause for one concrete class."""
    inst = f"{cls.name}.copy"
    hooks = {h: _hook(prog, cls, h) for h in HOOKS}
    hooks = {h: (o, f) for h, (o, f) in hooks.items() if f is not None}
    if not hooks:
        run.ok(rule, inst, "default copy / pickle protocol: every attribute is copied deeply")
        return
    try:
        attrs = instance_state(prog, cls)
        findings = []
        if "__deepcopy__" in hooks:
            owner, fn = hooks["__deepcopy__"]
            state, default = deepcopy_effect(prog, cls, owner, fn)
            where = f"{owner.module.path}:{fn.lineno}"
            for a, v in sorted(attrs.items()):
                status = state.get(a, default)
                if status == "deep-nomemo" and any(t[0] == "param" for t in ir.subterms(v)):
                    findings.append((where, f"{owner.name}.__deepcopy__", f"copy.deepcopy(self.{a}) without the memo",
                                     f"`{a}` holds an object the constructor was handed, and it is deep-copied with a memo of its "
                                     f"own: when that object is also reachable from elsewhere in what is being copied (the storage "
                                     f"an explainer and its imputer both hold), the copy gets two separate objects and the copied "
                                     f"{cls.name} no longer sees what its owner updates"))
                    continue
                if _kind(v) != "object":
                    if status == "missing":
                        findings.append((where, f"{owner.name}.__deepcopy__", f"self.{a} is not given to the copy",
                                         f"a copy made through {owner.name}.__deepcopy__ has no attribute `{a}` "
                                         f"(instances of {cls.name} keep {ir.show_nl(v)[:60]} there)"))
                    continue
                if isinstance(status, tuple) and isinstance(status[1], tuple) and status[1][0] == "carried":
                    lost = _carried_loss(prog, status[1][1])
                    if lost is None:
                        raise Undecided(f"{owner.name}.__deepcopy__ rebuilds the elements of `{a}` from {status[1][2]}; whether "
                                        f"they hold more than {list(status[1][1])} is not decided")
                    findings.append((where, f"{owner.name}.__deepcopy__", f"elements of self.{a} rebuilt from {status[1][2]}",
                                     f"the copy's `{a}` does not hold copies of the original's elements: each element is a copy of "
                                     f"{status[1][2]} onto which only {list(status[1][1])} is carried over, so the rest of an "
                                     f"element's state (e.g. `{lost[1]}` of a {lost[0]}) is lost in every copy"))
                    continue
                if status == "unknown":
                    raise Undecided(f"{owner.name}.__deepcopy__ builds `{a}` of the copy in a way that is not followed")
                shared = status == "shallow" or status == ("rebuilt", "same-elements") and False
                if status == "missing":
                    findings.append((where, f"{owner.name}.__deepcopy__", f"self.{a} is not given to the copy",
                                     f"a copy made through {owner.name}.__deepcopy__ has no attribute `{a}`"))
                elif status == "deep-nomemo":
                    findings.append((where, f"{owner.name}.__deepcopy__", f"copy.deepcopy(self.{a}) without the memo",
                                     f"`{a}` is deep-copied with a memo of its own: an object that `{a}` shares with other parts "
                                     f"of what is being copied (the storage an explainer and its imputer both hold) becomes two "
                                     f"objects in the copy"))
                elif shared:
                    mut = mutation(prog, cls, a)
                    if mut == "yes":
                        findings.append((where, f"{owner.name}.__deepcopy__", f"self.{a} shared with the copy",
                                         f"{cls.name} copies made through {owner.name}.__deepcopy__ share the object in `{a}` "
                                         f"({ir.show_nl(v)[:50]}) with the original, and {cls.name} changes that object in place: "
                                         f"updating either one changes the other"))
                    elif mut == "maybe":
                        raise Undecided(f"{owner.name}.__deepcopy__ shares `{a}`; whether {cls.name} changes it in place is "
                                        f"not decided")
        if "__getstate__" in hooks or "__setstate__" in hooks:
            saved = ("all", set(), set())
            if "__getstate__" in hooks:
                saved = getstate_names(prog, cls, *hooks["__getstate__"])
            eff = None
            if "__setstate__" in hooks:
                eff = setstate_effect(prog, cls, *hooks["__setstate__"])
            g_owner, g_fn = hooks.get("__getstate__", hooks.get("__setstate__"))
            where = f"{g_owner.module.path}:{g_fn.lineno}"

            def in_state(name):
                if saved[0] == "all":
                    return name not in saved[1] or name in saved[2]
                return name in saved[1]
            routed = eff is not None and eff["same_names"] and saved[0] == "all" and \
                any(_has_descriptor(prog, cls, n) for n in saved[2])
            init_fields = prog.summarise(cls, "__init__").fields
            _, init = prog.find_method(cls, "__init__")
            for a, v in sorted(attrs.items()):
                if eff is None:
                    if not in_state(a):
                        findings.append((where, f"{g_owner.name}.__getstate__", f"self.{a} is not part of the state",
                                         f"`{a}` is left out of the state {g_owner.name}.__getstate__ returns and nothing restores "
                                         f"it: copies and unpickled instances of {cls.name} lose it (they fall back to a "
                                         f"class-level default or fail)"))
                    continue
                if (eff["same_names"] and in_state(a)) or a in eff["restored"]:
                    continue
                if a in eff["rebuilt"]:
                    if routed:
                        continue        # refilled through properties the state also carries
                    if mutation(prog, cls, a) == "no":
                        continue
                    raise Undecided(f"{g_owner.name}.__setstate__ builds a new object for `{a}`; whether its content is "
                                    f"restored is not decided")
                if eff["init_params"] is not None:
                    # left to the constructor: must be fully determined by the arguments that are passed on
                    comp = [t for f, t in init_fields.items() if f == a or f.startswith(a + ".")]
                    params = {t[1] for c in comp for t in ir.subterms(c) if t[0] == "param"}
                    draws = any(t[0] == "draw" for c in comp for t in ir.subterms(c))
                    missing = sorted(p for p in params if p not in eff["init_params"])
                    moved = mutation(prog, cls, a) != "no" or _reassigned(prog, cls, a)
                    why = None
                    if missing:
                        why = f"it is rebuilt from the constructor's default for `{missing[0]}` instead of the configured value"
                    elif draws:
                        why = "the constructor draws it afresh"
                    elif moved:
                        why = "it changes after construction and is reset to its initial value"
                    if why:
                        findings.append((where, f"{g_owner.name}.__setstate__", f"self.{a} is not restored",
                                         f"{g_owner.name}.__setstate__ rebuilds {cls.name} through __init__ and does not restore "
                                         f"`{a}`: {why} (copies and unpickled instances differ from the original)"))
                    continue
                findings.append((where, f"{g_owner.name}.__setstate__", f"self.{a} is not restored",
                                 f"`{a}` is neither written by {g_owner.name}.__setstate__ nor part of the restored state: copies "
                                 f"and unpickled instances of {cls.name} lose it"))
        for h in ("__copy__", "__reduce__", "__reduce_ex__", "__getnewargs__", "__getnewargs_ex__"):
            if h in hooks:
                raise Undecided(f"{hooks[h][0].name}.{h} replaces the copy protocol in a way that is not followed")
    except Undecided as e:
        raise AnalysisError(f"{cls.name}: {e}")
    if findings:
        where, func, construct, msg = findings[0]
        run.fail(rule, inst, where, func, construct, msg)
    else:
        run.ok(rule, inst, f"copy hooks {sorted(hooks)} keep every attribute of {cls.name}")


def _reassigned(prog, cls, attr):
    """Is self.<attr> assigned outside the constructors (a counter, a weight that moves)?"""
    for k in prog.mro(cls):
        for mname, fn in k.methods.items():
            if mname == "__init__" or mname in HOOKS or not fn.args.args:
                continue
            me = _self_name(fn)
            for n in ast.walk(fn):
                if _is_self_attr(n, me) and n.attr == attr and isinstance(n.ctx, (ast.Store, ast.Del)):
                    return True
    return False
