"""C18 -- results are reproducible from the global random seeds (rule ENTROPY, whole package).

 E1  every call resolving into `random` / `numpy.random` is a module-level function of the global generators:
     private generators (Random, SystemRandom, default_rng, RandomState, Generator) and (re)seeding are forbidden;
 E2  no call resolves to time / datetime / os.urandom / uuid / secrets / id() / hash() outside visualisation;
 E3  every third-party learner constructed in the package whose constructor takes `seed`/`random_state` gets it,
     and the value is never None on any path (a None seed makes river seed a private generator from OS entropy);
 E4  no shared mutable state: no mutable module-level or class-level container (except __all__), no `global`,
     no mutable default argument (a default evaluated once and shared by all instances).
A positive fixture (fixtures/c18_bad.py) must fire on every run, so the zero-count rules are never vacuous.
"""
import ast
import os

from .. import ir
from ..paths import walk
from ..report import AnalysisError, VERIF
from .algebra import arms
from .drawlib import FORBIDDEN
from .c15 import optional_params, _known_non_none

META = {
    "explanation": "ENTROPY: whole-package who-may-call analysis over resolved call targets (global-generator functions "
                   "only; no private generators, reseeding, clocks, OS entropy, identity hashes), nullness of the seed "
                   "argument of every seeded third-party constructor on all arms, and a scan for shared mutable state "
                   "(module/class-level containers, mutable defaults, global statements). Includes a must-fire fixture.",
    "trusted_base": ["Python's and NumPy's global generators are deterministic functions of their seeds",
                     "river learners are deterministic given a non-None seed"],
    "assumptions": ["same interpreter configuration (PYTHONHASHSEED) for both replays"],
    "not_decided": "dependence on set iteration order under different hash seeds; third-party determinism",
}
META["explanation"] += ' Also: calls through names bound to the random modules, parallel execution, tqdm display state, descriptors keeping values on themselves.'
META["explanation"] += ' Round 5: E5 (what choice / choices / sample / shuffle draw from is not ordered by a set, also through package helpers), module-level iterator objects (E4), classes instantiated through a constant table (E3), DEP-C06 VALUE strategy (no decision by identity of equal strings); **options mappings built elsewhere are not decided. HAZARD: constructs that do not mean what they look like, met in the analysed code (defaults evaluated once, class-level containers changed through self, dict.fromkeys with a shared mutable value, late-binding lambdas, truth value of objects that define __len__) are reported by every check.'
META["explanation"] += ' Round 6: process-wide switches (torch.set_flush_denormal, np.seterr, ...) (E2); generator classes handed on as factories (E1); helper functions whose entropy source is a parameter defaulting to a global-generator function count as draw sites.'
MIN_INSTANCES = {"E1": 15, "E2": 1, "E3": 2, "E4": 1, "FIXTURE": 1}

CLOCKS = ("time.", "datetime.", "uuid.", "secrets.", "os.urandom", "os.getpid", "os.times", "socket.", "platform.node")
# draws made in worker processes come from generators seeded from OS entropy; draws made in worker threads are handed out
# in scheduling order
PARALLEL = ("joblib.", "multiprocessing.", "concurrent.futures.", "threading.", "asyncio.", "dask.", "ray.")
# switches that change how every later computation in the process behaves
PROCESS_SWITCHES = ("torch.set_flush_denormal", "torch.set_default_dtype", "torch.set_default_tensor_type",
                    "torch.set_num_threads", "torch.use_deterministic_algorithms", "torch.manual_seed", "torch.seed",
                    "numpy.seterr", "numpy.seterrcall", "numpy.set_printoptions", "sys.setrecursionlimit",
                    "decimal.setcontext", "locale.setlocale", "os.environ")
TQDM_STATE = ("n", "last_print_n", "last_print_t", "start_t", "avg_time", "format_dict", "elapsed")
SEED_PARAMS = ("seed", "random_state")
SEEDED_FALLBACK = {"river.tree.HoeffdingAdaptiveTreeClassifier", "river.tree.HoeffdingAdaptiveTreeRegressor",
                   "river.forest.ARFClassifier", "river.forest.ARFRegressor", "river.ensemble.BaggingClassifier"}


def _takes_seed(dotted):
    try:
        import importlib
        import inspect
        mod, name = dotted.rsplit(".", 1)
        obj = getattr(importlib.import_module(mod), name)
        if not inspect.isclass(obj):
            return None
        ps = inspect.signature(obj.__init__).parameters
        return next((p for p in SEED_PARAMS if p in ps), None)
    except Exception:
        return "seed" if dotted in SEEDED_FALLBACK else None


READ_ONLY_METHODS = {"get", "keys", "values", "items", "index", "count", "copy", "__getitem__", "__contains__",
                     "__len__", "__iter__"}


def only_read(prog, m, name, class_level=False):
    """Is the module-level (class-level) container `name` of module m only ever read -- subscripted,
    searched, iterated, measured -- in every module that can see it?  Any other use (passed on, returned,
    rebound, mutator call, item assignment, augmented assignment) may change or leak it."""
    for mod in prog.modules.values():
        visible = mod is m or any(v == f"{m.name}.{name}" for v in mod.imports.values()) or class_level
        if not visible:
            # module attribute access `pkg.mod.NAME`
            if not any(isinstance(n, ast.Attribute) and n.attr == name for n in ast.walk(mod.tree)):
                continue
        parents = {}
        for n in ast.walk(mod.tree):
            for c in ast.iter_child_nodes(n):
                parents[c] = n
        for n in ast.walk(mod.tree):
            if class_level:
                hit = isinstance(n, ast.Attribute) and n.attr == name
            else:
                hit = (isinstance(n, ast.Name) and n.id == name) or (isinstance(n, ast.Attribute) and n.attr == name
                                                                     and mod is not m)
            if not hit:
                continue
            par = parents.get(n)
            encl = par
            while encl is not None and not isinstance(encl, (ast.FunctionDef, ast.AsyncFunctionDef, ast.Lambda)):
                encl = parents.get(encl)
            if isinstance(encl, ast.FunctionDef) and encl.name in ("__init_subclass__", "__set_name__", "__class_getitem__"):
                continue                        # runs while classes are created (import time): the same on every run
            if isinstance(n.ctx, ast.Store):
                if isinstance(par, (ast.Assign, ast.AnnAssign)) and parents.get(par) in (mod.tree,) and not class_level:
                    continue                    # the defining assignment itself
                if class_level and isinstance(par, (ast.Assign, ast.AnnAssign)) and isinstance(parents.get(par), ast.ClassDef):
                    continue
                return False
            if isinstance(n.ctx, ast.Del):
                return False
            if isinstance(par, ast.Subscript) and par.value is n and isinstance(par.ctx, ast.Load):
                continue
            if isinstance(par, ast.Compare) and n in par.comparators and \
                    all(isinstance(o, (ast.In, ast.NotIn)) for o in par.ops):
                continue
            if isinstance(par, (ast.For, ast.comprehension)) and par.iter is n:
                continue
            if isinstance(par, ast.Call) and isinstance(par.func, ast.Name) and par.func.id in ("len", "sorted", "tuple", "frozenset", "iter", "list", "dict", "set", "enumerate") and n in par.args:
                continue
            if isinstance(par, ast.Attribute) and par.value is n and par.attr in READ_ONLY_METHODS and \
                    isinstance(parents.get(par), ast.Call) and parents[par].func is par:
                continue
            if isinstance(par, ast.alias):
                continue
            return False
    return True


def rng_aliases(prog):
    """Names (module- or class-level) bound to the random / numpy.random modules themselves, package-wide:
    `_rng = random` makes `self._rng.seed(...)` a call into the module."""
    got = getattr(prog, "_rng_aliases", None)
    if got is None:
        got = {}
        for m in prog.modules.values():
            for n in ast.walk(m.tree):
                if isinstance(n, (ast.Assign, ast.AnnAssign)) and n.value is not None and \
                        isinstance(n.value, (ast.Name, ast.Attribute)):
                    d = prog.dotted_of(m, n.value)
                    if d is None and isinstance(n.value, ast.Name):
                        r = prog.resolve_name(m, n.value.id)
                        d = r[1] if r and r[0] == "ext" else None
                    if d in ("random", "numpy.random"):
                        for t in (n.targets if isinstance(n, ast.Assign) else [n.target]):
                            name = t.id if isinstance(t, ast.Name) else (t.attr if isinstance(t, ast.Attribute) else None)
                            if name:
                                got[name] = d
        prog._rng_aliases = got
    return got


def scan_module(prog, m):
    """Findings [(rule, line, func, construct, message)] and counts for one module."""
    out, counts = [], {"E1": 0, "E2": 0, "E4": 0}
    aliases = rng_aliases(prog)
    # id(x) used only as the key under which __deepcopy__ registers its result in the memo it was handed
    memo_keys = set()
    for fn in ast.walk(m.tree):
        if isinstance(fn, ast.FunctionDef) and fn.name == "__deepcopy__" and len(fn.args.args) >= 2:
            memo = fn.args.args[1].arg
            for n in ast.walk(fn):
                if isinstance(n, ast.Subscript) and isinstance(n.value, ast.Name) and n.value.id == memo and \
                        isinstance(n.slice, ast.Call) and isinstance(n.slice.func, ast.Name) and n.slice.func.id == "id":
                    memo_keys.add(id(n.slice))
    # names bound to a tqdm progress bar object
    tqdm_names = set()
    for n in ast.walk(m.tree):
        if isinstance(n, ast.Assign) and isinstance(n.value, ast.Call) and len(n.targets) == 1 and isinstance(n.targets[0], ast.Name):
            d = prog.dotted_of(m, n.value.func) if isinstance(n.value.func, (ast.Attribute, ast.Name)) else None
            if d is None and isinstance(n.value.func, ast.Name):
                r = prog.resolve_name(m, n.value.func.id)
                d = r[1] if r and r[0] == "ext" else None
            if d and d.startswith("tqdm"):
                tqdm_names.add(n.targets[0].id)
        if isinstance(n, ast.With):
            for it in n.items:
                if isinstance(it.context_expr, ast.Call) and it.optional_vars is not None and isinstance(it.optional_vars, ast.Name):
                    d = prog.dotted_of(m, it.context_expr.func) if isinstance(it.context_expr.func, (ast.Attribute, ast.Name)) else None
                    if d is None and isinstance(it.context_expr.func, ast.Name):
                        r = prog.resolve_name(m, it.context_expr.func.id)
                        d = r[1] if r and r[0] == "ext" else None
                    if d and d.startswith("tqdm"):
                        tqdm_names.add(it.optional_vars.id)
    # E1 / E2 on resolved call targets and name references
    call_funcs = {id(c.func) for c in ast.walk(m.tree) if isinstance(c, ast.Call)}
    for n in ast.walk(m.tree):
        if isinstance(n, ast.Call):
            d = prog.dotted_of(m, n.func) if isinstance(n.func, (ast.Attribute, ast.Name)) else None
            if d is None and isinstance(n.func, ast.Attribute) and isinstance(n.func.value, (ast.Name, ast.Attribute)):
                holder = n.func.value.id if isinstance(n.func.value, ast.Name) else n.func.value.attr
                if holder in aliases:
                    d = f"{aliases[holder]}.{n.func.attr}"      # a call through a name bound to the module
            if isinstance(n.func, ast.Name) and d is None:
                r = prog.resolve_name(m, n.func.id)
                if r and r[0] == "ext":
                    d = r[1]
                elif r is None and n.func.id in ("id", "hash"):
                    counts["E2"] += 1
                    if n.func.id == "id" and id(n) in memo_keys:
                        continue            # memo[id(self)] = copy: the deepcopy protocol's own bookkeeping, the value is unused
                    out.append(("E2", n.lineno, "", f"{n.func.id}() call", f"{n.func.id}() depends on object identity / hash seed"))
            if d is None or d.startswith("ixai."):
                # a call of a package helper whose entropy source is a parameter defaulting to a function of the global
                # generators (`def _draw(*, uniform=random.random)`): a draw site like a direct call
                tgt = None
                if isinstance(n.func, ast.Name):
                    r = prog.resolve_name(m, n.func.id)
                    tgt = r[1][1] if r and r[0] == "func" else None
                if tgt is not None and any(
                        isinstance(dn, (ast.Attribute, ast.Name)) and
                        (prog.dotted_of(r[1][0], dn) or "").startswith(("random.", "numpy.random."))
                        for dn in list(tgt.args.defaults) + [k for k in tgt.args.kw_defaults if k is not None]):
                    counts["E1"] += 1
            if d is None:
                continue
            if d.startswith("random.") or d.startswith("numpy.random."):
                counts["E1"] += 1
                if d in FORBIDDEN or d.rsplit(".", 1)[1] in ("Random", "SystemRandom", "default_rng", "RandomState",
                                                             "Generator", "seed", "SeedSequence", "PCG64", "MT19937",
                                                             "Philox", "SFC64", "setstate", "set_state"):
                    what = "reseeds the global generator" if d.endswith(("seed", "setstate", "set_state")) else \
                        "creates a private generator that the global seeds do not control"
                    out.append(("E1", n.lineno, "", f"{d}(...)", f"{d} {what}"))
            elif d in ("numpy.empty", "numpy.empty_like", "numpy.ndarray"):
                counts["E2"] += 1
                out.append(("E2", n.lineno, "", f"{d}(...)", f"{d} returns uninitialised memory: results depend on what the "
                            f"process allocated before"))
            elif any(d.startswith(c) or d == c for c in CLOCKS):
                counts["E2"] += 1
                out.append(("E2", n.lineno, "", f"{d}(...)", f"{d} makes results depend on wall-clock time / OS entropy / identity"))
            elif d in PROCESS_SWITCHES:
                counts["E2"] += 1
                out.append(("E2", n.lineno, "", f"{d}(...)",
                            f"{d} changes a process-wide setting: from this call on every computation in the process (also of "
                            f"objects built earlier, also plain Python / NumPy arithmetic) behaves differently, so a replay "
                            f"depends on which library objects were created before it"))
            elif any(d.startswith(c) for c in PARALLEL):
                counts["E2"] += 1
                out.append(("E2", n.lineno, "", f"{d}(...)",
                            f"{d} runs package code in other processes / threads: random draws made there come from generators "
                            f"the global seeds do not control (processes) or are handed out in scheduling order (threads)"))
        elif isinstance(n, ast.Attribute):
            d = prog.dotted_of(m, n)
            if d in ("random.Random", "random.SystemRandom", "numpy.random.default_rng", "numpy.random.RandomState",
                     "numpy.random.Generator") and isinstance(n.ctx, ast.Load) and id(n) not in call_funcs:
                # the generator class handed on as a value (`default_factory=random.Random`, a table entry): whoever calls
                # it without a seed gets a generator seeded from OS entropy
                counts["E1"] += 1
                out.append(("E1", n.lineno, "", f"{d} used as a factory",
                            f"{d} is handed on as a callable: called without arguments it creates a private generator seeded "
                            f"from OS entropy, which the global seeds do not control"))
            if isinstance(n.value, ast.Name) and n.value.id in tqdm_names and n.attr in TQDM_STATE and isinstance(n.ctx, ast.Load):
                counts["E2"] += 1
                out.append(("E2", n.lineno, "", f"{n.value.id}.{n.attr} of a tqdm progress bar",
                            f"`{n.value.id}.{n.attr}` is the progress bar's display state: tqdm refreshes it at wall-clock intervals "
                            f"(and not at all when the bar is disabled), so a value computed from it differs between replays"))
    # E4 shared mutable state
    def mutable(v):
        if isinstance(v, (ast.List, ast.Dict, ast.Set, ast.ListComp, ast.DictComp, ast.SetComp)):
            return True
        if isinstance(v, ast.Call):
            f = v.func
            name = f.id if isinstance(f, ast.Name) else (f.attr if isinstance(f, ast.Attribute) else "")
            if name in ("MappingProxyType", "frozenset", "tuple", "namedtuple", "NamedTuple"):
                return False            # a read-only view / an immutable value
            K0 = prog.resolve_class(m, f) if isinstance(f, (ast.Name, ast.Attribute)) else None
            if K0 is not None and (prog.find_method(K0, "__get__")[1] is not None or
                                   any(str(b).rsplit(".", 1)[-1] == "property" for b in prog.ext_bases(K0))):
                # a descriptor: shared by design; it is state only if something other than its construction
                # (__init__ / __set_name__) assigns its attributes
                later = [x for k in prog.mro(K0) for mn, fn in k.methods.items() if mn not in ("__init__", "__set_name__")
                         for x in ast.walk(fn)
                         if isinstance(x, ast.Attribute) and isinstance(x.ctx, (ast.Store, ast.Del)) and
                         isinstance(x.value, ast.Name) and fn.args.args and x.value.id == fn.args.args[0].arg]
                if not later:
                    return False
            if K0 is not None and not prog.ext_bases(K0) and not any(
                    isinstance(x, ast.Attribute) and isinstance(x.ctx, (ast.Store, ast.Del))
                    for k in prog.mro(K0) for x in ast.walk(k.node)):
                return False            # an instance of a package class that never assigns an attribute: stateless
            if name in ("list", "dict", "set", "deque", "defaultdict", "OrderedDict", "Counter", "bytearray"):
                return True
            if name.lstrip("_")[:1].isupper() and name not in ("TypeVar", "NewType", "Union", "Optional"):
                K = prog.resolve_class(m, f)
                if K is not None and K.record_fields is not None:
                    return False            # an immutable record (NamedTuple / frozen dataclass): a constant
                if K is not None and prog.find_method(K, "__set__")[1] is not None:
                    # a descriptor: shared only if it keeps the values on itself instead of on the instance
                    st = prog.find_method(K, "__set__")[1]
                    me = st.args.args[0].arg if st.args.args else "self"
                    return any(isinstance(x, ast.Attribute) and isinstance(x.ctx, ast.Store) and
                               isinstance(x.value, ast.Name) and x.value.id == me for x in ast.walk(st))
                return True
        return False
    def iterator(v):
        """A module-level iterator object (a running generator, iter(...), itertools.count()): whatever has been taken
        from it -- and whatever it has buffered -- outlives every re-seeding and every freshly built object."""
        if isinstance(v, ast.GeneratorExp):
            return True
        if isinstance(v, ast.Call) and isinstance(v.func, (ast.Name, ast.Attribute)):
            r = prog.resolve_name(m, v.func.id) if isinstance(v.func, ast.Name) else None
            if r and r[0] == "func" and any(isinstance(x, (ast.Yield, ast.YieldFrom)) for x in ast.walk(r[1][1])):
                return True
            d = prog.dotted_of(m, v.func) or (v.func.id if isinstance(v.func, ast.Name) else "")
            return d in ("iter", "map", "zip", "filter", "enumerate", "itertools.count", "itertools.cycle", "itertools.chain",
                         "itertools.islice", "itertools.repeat")
        return False
    for n in m.tree.body:
        tgt = None
        if isinstance(n, ast.Assign) and len(n.targets) == 1 and isinstance(n.targets[0], ast.Name):
            tgt, val = n.targets[0].id, n.value
        elif isinstance(n, ast.AnnAssign) and isinstance(n.target, ast.Name) and n.value is not None:
            tgt, val = n.target.id, n.value
        if tgt and tgt != "__all__" and iterator(val) and any(
                isinstance(x, ast.Name) and x.id == tgt and isinstance(x.ctx, ast.Load)
                for f_ in ast.walk(m.tree) if isinstance(f_, (ast.FunctionDef, ast.AsyncFunctionDef, ast.Lambda))
                for x in ast.walk(f_)):
            counts["E4"] += 1
            out.append(("E4", n.lineno, "", f"module-level {tgt} = {ast.unparse(val)[:60]}",
                        f"module-level iterator `{tgt}` is advanced by the code that uses it: what it has handed out or buffered "
                        f"so far survives re-seeding and is shared by every object created in the process"))
            continue
        if tgt and tgt != "__all__" and mutable(val):
            counts["E4"] += 1
            if only_read(prog, m, tgt):
                continue            # a lookup table: never written, never handed out
            out.append(("E4", n.lineno, "", f"module-level {tgt} = {ast.unparse(val)[:60]}",
                        f"module-level mutable object `{tgt}` is shared by every explainer/storage created in the process"))
    for n in ast.walk(m.tree):
        if isinstance(n, ast.Global):          # (`nonlocal` names live in one call of the enclosing function: not shared)
            counts["E4"] += 1
            out.append(("E4", n.lineno, "", f"global {', '.join(n.names)}", "global state written from a function"))
        if isinstance(n, ast.ClassDef):
            for b in n.body:
                if isinstance(b, (ast.Assign, ast.AnnAssign)):
                    val = b.value
                    name = ast.unparse(b.targets[0] if isinstance(b, ast.Assign) else b.target)
                    if val is not None and mutable(val):
                        counts["E4"] += 1
                        if "." not in name and only_read(prog, m, name, class_level=True):
                            continue
                        out.append(("E4", b.lineno, n.name, f"class-level {n.name}.{name} = {ast.unparse(val)[:60]}",
                                    f"class-level mutable object `{n.name}.{name}` is shared by all instances"))
        if isinstance(n, (ast.FunctionDef, ast.AsyncFunctionDef)):
            memo = ir.memoised(n)
            if memo in ("lru_cache", "functools.lru_cache", "cache", "functools.cache"):
                # a process-wide memo: objects built for one explainer / wrapper are handed to the next one
                counts["E4"] += 1
                out.append(("E4", n.lineno, n.name, f"@{memo} on {n.name}",
                            f"`{n.name}` is memoised for the life of the process: what it returns (and any state that object "
                            f"accumulates) is shared by every caller that passes equal arguments, so results depend on what "
                            f"was created or used before"))
            for d in list(n.args.defaults) + [x for x in n.args.kw_defaults if x is not None]:
                counts["E4"] += 1 if mutable(d) else 0
                if mutable(d):
                    out.append(("E4", d.lineno, n.name, f"mutable default {ast.unparse(d)[:60]} in {n.name}",
                                f"default argument `{ast.unparse(d)[:60]}` of {n.name} is evaluated once and shared by every "
                                f"call/instance: results depend on objects created or used before"))
    return out, counts


def check(run):
    prog = run.prog
    total = {"E1": 0, "E2": 0, "E4": 0}
    mods = [m for m in prog.modules.values() if not m.name.startswith("ixai.visualization")]
    for m in mods:
        findings, counts = scan_module(prog, m)
        for k in total:
            total[k] += counts[k]
        for rule, line, func, construct, msg in findings:
            run.fail(rule, f"{m.name}:{construct}", f"{m.path}:{line}", func or m.name, construct, msg)
    wanted0 = getattr(run, "_wanted", None)
    if wanted0 is None or wanted0("E1", "package"):     # (not when included for other rules only)
        run.need(total["E1"] >= 15 or any(f.rule.endswith("E1") or f.rule.startswith("DEP-C18") for f in run.findings),
                 f"only {total['E1']} calls into random/numpy.random found (confirmed minimum 15)")
    run.analysed["call_sites"] += total["E1"]
    if not any(f.rule == "E1" for f in run.findings):
        run.ok("E1", "package", f"{total['E1']} calls into random / numpy.random, all module-level functions of the global generators")
        for i in range(15):
            run.ok("E1", f"site-{i}", "")
    if not any(f.rule == "E2" for f in run.findings):
        run.ok("E2", "package", f"{len(mods)} modules: no clock / OS-entropy / identity source")
    if not any(f.rule == "E4" for f in run.findings):
        run.ok("E4", "package", "no mutable module/class-level state, no mutable default argument, no global statement")
    wanted = getattr(run, "_wanted", None)          # set when this check is included into another one for some rules only
    if wanted is None or wanted("E3", ""):
        _seeds(run, prog)
    if wanted is None or wanted("FIXTURE", ""):
        _fixture(run, prog)
    # objects handed in by the caller (instance, target, feature-name list) are shared with later runs: in-place
    # changes make a replay depend on library objects used before (C15 NOMUT clauses)
    from .c06 import depends_on
    if wanted is None or wanted("DEP-C15", "") or wanted("NOMUT", ""):
        depends_on(run, "C15", {"NOMUT"})
        depends_on(run, "C06", {"VALUE"}, only=lambda rule, inst: inst.endswith(".strategy"))   # no decision by object identity of equal values (interning differs between runs)


def _seeds(run, prog):
    n = 0
    summaries = []
    for m, c, name, fn in prog.all_functions():
        try:
            summaries.append((m, c, name, fn, ir.Summariser(prog, m, c, fn, owner=c).run()))
        except ir.Unsupported:
            continue
    # a construction is checked in the function that writes it; when the class (or the seed) only becomes known where
    # that function is inlined into its caller -- a factory handed the class as an argument -- it is checked there
    own = set()
    for m, c, name, fn, s in summaries:
        for ev, ctx in walk(s.events):
            if not ctx.inl and isinstance(ev, ir.Call) and ev.method is None and ev.recv is None and "." in ev.callee and \
                    not ev.callee.startswith(("self.", "local:", "ixai.", "?")):
                own.add((ev.callee, ev.line))
    # E5: what a draw chooses from must have a reproducible order.  A list made from a set has the set's iteration
    # order -- by hash, i.e. by memory address for objects and by the per-process hash seed for strings -- so the same
    # random number picks a different element in the next replay.
    def is_set(t):
        return (t[0] == "new" and t[2] in ("set", "frozenset")) or (t[0] == "comp" and t[1] == "set") or \
            (t[0] == "fn" and t[1] in ("set", "frozenset"))

    def set_ordered(t, depth=0):
        if depth > 3 or not isinstance(t, tuple) or not t:
            return None
        if t[0] == "gate":
            return set_ordered(t[2], depth) or set_ordered(t[3], depth)
        if is_set(t):
            return t
        if t[0] == "new" and t[2] in ("list", "tuple") and len(t[3]) == 1 and isinstance(t[3][0], tuple) and is_set(t[3][0]):
            return t[3][0]
        if t[0] == "comp" and t[1] in ("list", "gen") and isinstance(t[3], tuple) and is_set(t[3]):
            return t[3]
        if t[0] == "res" and isinstance(t[2], str) and t[2].startswith("ixai.") and t[2] in prog_funcs:
            try:
                return set_ordered(prog.summarise_func(t[2]).ret, depth + 1)
            except (ir.Unsupported, RecursionError):
                return None
        return None
    prog_funcs = {f"{m_.name}.{fn_}" for m_ in prog.modules.values() for fn_ in m_.functions}
    n_pop = 0
    for m, c, name, fn, s in summaries:
        for ev, ctx in walk(s.events):
            if isinstance(ev, ir.Draw) and ev.prim.rsplit(".", 1)[-1] in ("choice", "choices", "sample", "shuffle", "permutation") \
                    and ev.args and not ctx.inl:
                n_pop += 1
                src = set_ordered(ev.args[0])
                if src is not None:
                    fq = f"{c.name + '.' if c else ''}{name}"
                    run.fail("E5", f"{fq}:{ev.prim}@{ev.line}", f"{s.path}:{ev.line}", fq,
                             f"{ev.prim}({ir.show_nl(ev.args[0])[:60]}, ...)",
                             f"{ev.prim} chooses from a sequence whose order is the iteration order of a set "
                             f"({ir.show_nl(src)[:80]}): that order follows hash values (memory addresses of objects, the "
                             f"per-process string hash seed), so the same random number selects a different element in "
                             f"another replay")
    if not any(f.rule == "E5" for f in run.findings):
        run.ok("E5", "package", f"{n_pop} draws from a population, none ordered by a set")
    for m, c, name, fn, s in summaries:
        opt = optional_params(fn)
        for ev, ctx in walk(s.events):
            if isinstance(ev, ir.Call) and ev.callee == "expr" and ev.recv is not None and ev.recv[0] == "sub" and \
                    ev.recv[1][0] == "constdict" and not ctx.inl:
                # TABLE[key](...): every class the table offers is constructed with these arguments
                for k, v in ev.recv[1][1]:
                    sp = _takes_seed(v[1]) if v[0] == "global" else None
                    if sp is None:
                        continue
                    n += 1
                    fq = f"{c.name + '.' if c else ''}{name}"
                    if sp not in dict(ev.kwargs) and "**" not in dict(ev.kwargs):
                        run.fail("E3", f"{fq}:{v[1].rsplit('.', 1)[1]}@table", f"{s.path}:{ev.line}", fq,
                                 f"{v[1].rsplit('.', 1)[1]}() chosen from a table, without {sp}",
                                 f"the table entry {k[1]!r} constructs {v[1]} without `{sp}=`: it seeds a private generator from "
                                 f"OS entropy, so replays under identical global seeds differ")
                continue
            if not isinstance(ev, ir.Call) or ev.method is not None or ev.recv is not None:
                continue
            if ctx.inl and (ev.callee, ev.line) in own:
                continue
            d = ev.callee
            if "." not in d or d.startswith(("self.", "local:", "ixai.", "?")):
                continue
            if not d.rsplit(".", 1)[1][:1].isupper():
                # Class.alternative_constructor(...) of a third-party class whose instances own a generator
                owner = d.rsplit(".", 1)[0]
                if "." in owner and owner.rsplit(".", 1)[1][:1].isupper() and _takes_seed(owner) and \
                        _takes_seed(owner) not in dict(ev.kwargs):
                    n += 1
                    fq = f"{c.name + '.' if c else ''}{name}"
                    run.fail("E3", f"{fq}:{d.rsplit('.', 2)[-2]}.{d.rsplit('.', 1)[1]}", f"{s.path}:{ev.line}", fq,
                             f"{d.rsplit('.', 2)[-2]}.{d.rsplit('.', 1)[1]}(...) without {_takes_seed(owner)}",
                             f"{d} builds a {owner} without `{_takes_seed(owner)}=`: the object draws from a private generator "
                             f"seeded from OS entropy, so replays under identical global seeds differ")
                continue
            sp = _takes_seed(d)
            if sp is None:
                continue
            n += 1
            run.analysed["call_sites"] += 1
            fq = f"{c.name + '.' if c else ''}{name}"
            kw = dict(ev.kwargs)
            val = kw.get(sp)
            if val is None and "**" in kw:
                dct = kw["**"]
                if dct[0] == "new" and dct[2] == "dict":
                    for it in dct[3]:
                        if it[0] == "kv" and it[1] == ("const", sp):
                            val = it[2]
                        if it[0] == "kw" and it[1] == sp:
                            val = it[2]
            inst = f"{fq}:{d.rsplit('.', 1)[1]}@{_nth(run, fq, d)}"
            if val is None and "**" in kw and not (kw["**"][0] == "new" and kw["**"][2] == "dict"):
                raise AnalysisError(f"{fq}: {d.rsplit('.', 1)[1]}(**options) at line {ev.line} takes its keyword arguments from "
                                    f"a mapping built elsewhere ({ir.show_nl(kw['**'])[:80]}); whether it holds `{sp}` is not decided")
            if val is None:
                run.fail("E3", inst, f"{s.path}:{ev.line}", fq, f"{d.rsplit('.', 1)[1]}(...) without {sp}",
                         f"{d} is constructed without `{sp}=`: it seeds a private generator from OS entropy, so replays under "
                         f"identical global seeds differ")
                continue
            bad = None
            for facts, t in arms(val):
                facts = list(facts) + list(ctx.guards)
                if t == ("const", None):
                    bad = "the seed is None"
                elif t[0] == "param" and t[1] in opt and not _known_non_none(t, facts):
                    bad = f"the seed is the Optional parameter '{t[1]}' (default None)"
            run.check(bad is None, "E3", inst, f"{s.path}:{ev.line}", fq, f"{d.rsplit('.', 1)[1]}({sp}={ir.show_nl(val)[:60]})",
                      f"{d} may receive {sp}=None ({bad}): river then seeds a private random.Random() from OS entropy and "
                      f"replays under identical global seeds differ", f"{sp} = {ir.show_nl(val)[:80]} is never None")
    run.need(n >= 2 or run.findings, f"only {n} seeded third-party constructors found (confirmed minimum 2)")


_SEEN = {}


def _nth(run, fq, d):
    k = (id(run), fq, d)
    _SEEN[k] = _SEEN.get(k, 0) + 1
    return _SEEN[k]


def _fixture(run, prog):
    path = os.path.join(VERIF, "fixtures", "c18_bad.py")
    with open(path, encoding="utf-8") as fh:
        text = fh.read()
    fprog = ir.Program(sources=dict(prog.files), overrides={"ixai/_fixture_c18.py": text})
    fm = fprog.modules["ixai._fixture_c18"]
    findings, counts = scan_module(fprog, fm)
    rules = {f[0] for f in findings}
    if not {"E1", "E2", "E4"} <= rules or len(findings) < 6:
        raise AnalysisError(f"ENTROPY fixture fired only {sorted(rules)} / {len(findings)} findings: the scanners are vacuous")
    run.ok("FIXTURE", "c18_bad.py", f"{len(findings)} planted violations reported by the scanners ({sorted(rules)})")


_T = "ixai/storage/tree_storage.py"
_M = "ixai/imputer/marginal_imputer.py"
WITNESSES = [
    ("TreeStorage seed may be None (pre-repair)", [(_T, "        if seed is None:  # derive the tree seeds from the global generator to stay reproducible\n            seed = random.randrange(2 ** 32)\n", "")]),
    ("a local Random()", [(_M, "rand_idx = random.randrange(len(features))\n        sampled_instance", "rand_idx = random.Random().randrange(len(features))\n        sampled_instance")]),
    ("default_rng()", [(_M, "            rand_idx = random.randrange(len(features))\n", "            rand_idx = int(np.random.default_rng().integers(len(features)))\n"),
                       (_M, "import random\n", "import random\nimport numpy as np\n")]),
    ("dropping seed=seed for the regressors", [(_T, "                grace_period=grace_period, seed=seed)\n                for num_feature", "                grace_period=grace_period)\n                for num_feature")]),
    ("class-level cache", [(_M, "class MarginalImputer(BaseImputer):\n", "class MarginalImputer(BaseImputer):\n    _cache = {}\n"),
                           (_M, "        predictions = []\n        for _ in range(n_samples):\n", "        predictions = []\n        self._cache[len(self._cache)] = x_i\n        for _ in range(n_samples):\n")]),
    ("default storage in the signature", [("ixai/explainer/sage/batch.py", "storage: Optional[BaseStorage] = None,\n            imputer: Optional[BaseImputer] = None,\n    ):\n        self.feature_names", "storage: Optional[BaseStorage] = BatchStorage(store_targets=True),\n            imputer: Optional[BaseImputer] = None,\n    ):\n        self.feature_names")]),
    ("reseeding inside the library", [("ixai/storage/geometric_reservoir_storage.py", "            random_float = random.random()\n", "            random.seed(len(self._storage_x))\n            random_float = random.random()\n")]),
    ("time-based tie break", [("ixai/storage/geometric_reservoir_storage.py", "            random_float = random.random()\n", "            import time\n            random_float = (random.random() + time.time()) % 1\n")]),
    ("mutable default list", [(_T, "def get_all_tree_paths(node, walked_path: str = '', paths=None) -> List[str]:\n    if paths is None:\n        paths = []\n", "def get_all_tree_paths(node, walked_path: str = '', paths: List[str] = []) -> List[str]:\n")]),
    ("seed forced to None", [(_T, "grace_period=grace_period, seed=seed)\n            for cat_feature", "grace_period=grace_period, seed=None)\n            for cat_feature")]),
]
SILENT = [
    ("read-only class-level lookup table", [(_M, "class MarginalImputer(BaseImputer):\n", "class MarginalImputer(BaseImputer):\n    _STRATEGIES = {'joint': True, 'product': False}\n"),
                                            (_M, "        if self.sampling_strategy == 'joint':", "        if self._STRATEGIES.get(self.sampling_strategy, False):")]),

    ("explicit seed derivation via numpy", [(_T, "seed = random.randrange(2 ** 32)", "seed = int(np.random.randint(0, 2 ** 31 - 1))")]),
]
