"""C16 -- normalised importances and confidence bounds are well-formed for all values.

 FORMULA  factor = sum(values) ('sum') / max(values) - min(values) ('delta'); unknown mode raises; every value
          is divided by that one factor; the public method passes importance_values and mode through;
 ZERODIV  the all-0.0 fallback is selected by a dominating explicit `factor == 0` test (NumPy scalars do
          not raise ZeroDivisionError);
 VAR      the variance getter reports the variance trackers directly, every value fed to them is an even
          power, and the smoothing parameter actually used satisfies a dominating 0 < alpha <= 1 check;
 BOUND    get_confidence_bound == (1-alpha)**t + sqrt(var_f * alpha / ((2-alpha) * delta)) for every
          explained feature, with alpha = the configured smoothing parameter, t = seen samples, under a
          dominating 0 < delta <= 1 check.
"""
from .. import ir
from ..paths import walk
from ..poly import OutOfDomain
from ..report import AnalysisError
from .algebra import identical
from .common import (const_value, guard_conditions, bounds_from, explainer_classes, field_roles, zero_test,
                     nonzero_test)

META = {
    "explanation": "FORMULA/ZERODIV on the summary of the normalisation helper (per-return shape under its branch "
                   "guards), radical normal form comparison of get_confidence_bound with the reference formula, "
                   "even-power provenance of every variance-tracker update in all incremental explainers, and range "
                   "checks (alpha, delta) as dominating guard conditions.",
    "trusted_base": ["averaging trackers of non-negative inputs stay non-negative (C10)",
                     "NumPy scalar division by zero yields inf/nan without raising"],
    "assumptions": ["importance values are finite reals"],
}
META["explanation"] += ' HAZARD: constructs that do not mean what they look like, met in the analysed code (defaults evaluated once, class-level containers changed through self, dict.fromkeys with a shared mutable value, late-binding lambdas, truth value of objects that define __len__) are reported by every check.'
MIN_INSTANCES = {"FORMULA": 4, "ZERODIV": 2, "VAR": 4, "BOUND": 2}


def _owner_of(prog, name):
    """The public explainer class through which `name` is analysed: the common ancestor of the public classes
    that offer it (the method itself may live in a private mixin or base class further up)."""
    having = [c for c in prog.all_classes() if c.module.name.startswith("ixai.explainer") and not c.name.startswith("_")
              and prog.find_method(c, name)[1] is not None]
    roots = [c for c in having if all(c in prog.mro(o) for o in having)]
    if len(roots) != 1:
        raise AnalysisError(f"anchor method {name} is offered by {len(having)} explainer classes without a common public base")
    return roots[0]


def check(run):
    prog = run.prog
    _normalise(run, prog)
    _variances(run, prog)
    _bound(run, prog)


# ------------------------------------------------------------------------------------------------
def _normalise(run, prog):
    """Analysed through the public get_normalized_importance_values (private helpers are inlined), so the
    rule does not depend on how the computation is split into helpers or what they are called."""
    cls = _owner_of(prog, "get_normalized_importance_values")
    s = prog.summarise(cls, "get_normalized_importance_values")
    fq = f"{cls.name}.get_normalized_importance_values"
    run.analysed_fn(fq)
    _, fn = prog.find_method(cls, "get_normalized_importance_values")
    mode = ("param", [a.arg for a in fn.args.args][1])
    # the values being normalised: the importance_values property
    iv = prog.summarise(cls, "importance_values").ret
    cands = [t for t in {x for ev, _ in walk(s.events) for part in ev if isinstance(part, tuple) for x in ir.subterms(part)}
             if ir.strip_sites(t) == ir.strip_sites(iv)]
    run.need(cands, "get_normalized_importance_values does not read importance_values")
    vals = cands[0]
    from .common import return_cases
    seen = set()
    # unknown modes must raise (the raise may sit in an inlined helper)
    for ev, ctx in walk(s.events):
        if isinstance(ev, ir.Raise):
            m = _mode_of(ctx.guards, mode)
            handler = [h for t, h in ctx.tries if h != "body"]
            if handler:
                continue
            run.check(m == "other", "FORMULA", "norm.unknown-mode", f"{s.path}:{ev.line}", fq,
                      f"raise under [{' & '.join(ir.show_nl(x) for x in ctx.guards)}]",
                      f"an exception is raised for mode {m}", "unknown mode raises")
            seen.add("raise")
    for g, v, line, ctx in return_cases(s):
        gtxt = " & ".join(ir.show_nl(x) for x in g) or "always"
        m = _mode_of(g, mode)
        if m == "other" or m is None:
            run.fail("FORMULA", "norm.unknown-mode", f"{s.path}:{line}", fq, f"return under [{gtxt}]",
                     f"a result is returned for an unknown normalisation mode ([{gtxt}])")
            continue
        in_handler = [h for t, h in ctx.tries if h != "body"]
        in_try = [t for t, h in ctx.tries if h == "body"]
        fac = _factor_terms(s, vals, m)
        if v[0] == "comp" and v[1] == "dict" and const_value(v[5]) == 0:
            zt = any(zero_test(x, fac) for x in g)
            if in_handler and not zt:
                run.fail("ZERODIV", f"norm.zero.{m}", f"{s.path}:{line}", fq,
                         f"zero fallback in `except {'/'.join(in_handler[0].exc)}`",
                         "the all-0.0 fallback is reached only through `except ZeroDivisionError`; NumPy scalar values "
                         "(np.float64 importances) divide to inf/nan without raising")
            else:
                run.check(zt, "ZERODIV", f"norm.zero.{m}", f"{s.path}:{line}", fq, f"zero fallback under [{gtxt}]",
                          f"the all-0.0 result must be selected by an explicit `factor == 0` test; found [{gtxt}]",
                          f"{m}: factor == 0 selects all 0.0")
            keys_ok = (v[3][0] == "res" and v[3][2] in (".items", ".keys") and v[3][3][0] == vals) or v[3] == vals
            run.check(keys_ok, "FORMULA", f"norm.zero-keys.{m}", f"{s.path}:{line}", fq, f"zero keys {ir.show_nl(v[3])}",
                      "the all-zero result must cover every feature", "zeros for every key")
            seen.add(("zero", m))
            continue
        if v[0] == "comp" and v[1] == "dict" and v[5][0] == "op" and v[5][1] == "/":
            num, den = v[5][2], v[5][3]
            over_items = v[3][0] == "res" and v[3][2] == ".items" and v[3][3][0] == vals
            shape = (over_items and v[4] == ("tget", ("elem", v[2]), 0) and num == ("tget", ("elem", v[2]), 1)) or \
                    (v[3] == vals and v[4] == ("elem", v[2]) and num == ("sub", vals, ("elem", v[2])))
            run.check(shape and den in fac, "FORMULA", f"norm.ratio.{m}", f"{s.path}:{line}", fq,
                      f"{m}: {ir.show_nl(v[5])}",
                      f"in mode '{m}' every value must be divided by " +
                      ("sum(values)" if m == "sum" else "max(values) - min(values)") + f"; found {ir.show_nl(v[5])}",
                      f"{m}: value / {ir.show_nl(den)}")
            nz = any(nonzero_test(x, fac) for x in g)
            if nz:
                run.ok("ZERODIV", f"norm.div.{m}", "division dominated by an explicit factor != 0 test")
            else:
                how = "guarded only by `except ZeroDivisionError`" if in_try else "unguarded"
                run.fail("ZERODIV", f"norm.div.{m}", f"{s.path}:{line}", fq, f"division {how}",
                         f"the division by the normaliser is {how}: for NumPy scalars a zero normaliser yields inf/nan "
                         f"instead of all 0.0")
            seen.add(("ratio", m))
            continue
        run.fail("FORMULA", f"norm.shape.{m}", f"{s.path}:{line}", fq, f"returns {ir.show_nl(v)[:120]}",
                 f"unexpected result shape in mode {m}: {ir.show_nl(v)[:200]}")
    need = {"raise", ("zero", "sum"), ("zero", "delta"), ("ratio", "sum"), ("ratio", "delta")}
    missing = need - seen
    if missing and not run.findings:
        run.fail("FORMULA", "norm.cases", f"{s.path}:{s.fn.lineno}", fq, f"missing cases {sorted(map(str, missing))}",
                 f"normalisation must handle sum/delta x zero/non-zero and reject other modes; missing {sorted(map(str, missing))}")
    default = prog.default_value(fn, fn.args.defaults[-1]) if fn.args.defaults else None
    run.check(default == "sum", "FORMULA", "norm.default-mode", f"{s.path}:{s.fn.lineno}", fq, f"default mode {default!r}",
              f"the documented default mode is 'sum', found {default!r}", "default mode 'sum'")


def _mode_of(guards, mode):
    """Which mode does this conjunction of guards select: 'sum' / 'delta' / 'other' / None."""
    from .boolalg import literal
    pos, neg = [], []
    for g in guards:
        a, pol = literal(g)
        if a[0] == "cmp" and a[1] == "==" and mode in (a[2], a[3]):
            other = a[3] if a[2] == mode else a[2]
            if other[0] == "const":
                (pos if pol else neg).append(other[1])
    if len(pos) == 1 and pos[0] in ("sum", "delta"):
        return pos[0]
    if not pos and guards:
        # compound tests (`mode not in ('delta', 'sum')` negated, ...): decided propositionally
        from .boolalg import implies, conj
        is_sum, is_delta = ir.cmp_term("==", mode, ("const", "sum")), ir.cmp_term("==", mode, ("const", "delta"))
        try:
            c = conj(tuple(guards))
            if implies(c, is_sum):
                return "sum"
            if implies(c, is_delta):
                return "delta"
            if implies(c, ("and", (ir.negate(is_sum), ir.negate(is_delta)))):
                return "other"
        except (ValueError, RecursionError):
            pass
    if not pos and set(neg) >= {"sum", "delta"}:
        return "other"
    if pos:
        return "other"
    return None


def _factor_terms(s, vals, m):
    """Accepted normaliser terms for mode m (over list(values) / values.values())."""
    out = []
    lists = []
    for t in {x for ev, _ in walk(s.events) for part in ev if isinstance(part, tuple) for x in ir.subterms(part)} | \
            set(ir.subterms(s.ret)):
        if t[0] == "res" and t[2] == ".values" and t[3] and t[3][0] == vals:
            lists.append(t)
    lists += [("new", "@", "list", (l,)) for l in list(lists)]
    for t in {x for ev, _ in walk(s.events) for part in ev if isinstance(part, tuple) for x in ir.subterms(part)} | \
            set(ir.subterms(s.ret)):
        if m == "sum" and t[0] == "fn" and t[1] == "sum" and len(t[2]) == 1 and _is_vals(t[2][0], lists):
            out.append(t)
        if m == "delta" and t[0] == "op" and t[1] == "-":
            a, b = t[2], t[3]
            if a[0] == "fn" and a[1] == "max" and b[0] == "fn" and b[1] == "min" and len(a[2]) == 1 and \
                    len(b[2]) == 1 and _is_vals(a[2][0], lists) and _is_vals(b[2][0], lists):
                out.append(t)
    return out


def _is_vals(t, lists):
    st = ir.strip_sites(t)
    return any(st == ir.strip_sites(l) for l in lists)


def _zero_test(g, fac):
    return g[0] == "cmp" and g[1] == "==" and ((g[2] in fac and const_value(g[3]) == 0) or
                                               (g[3] in fac and const_value(g[2]) == 0))


# ------------------------------------------------------------------------------------------------
def _variances(run, prog):
    cls = _owner_of(prog, "get_confidence_bound")
    s = prog.summarise(cls, "variances")
    run.analysed_fn(f"{cls.name}.variances")
    r = s.ret
    roles = field_roles(prog, cls)
    plain = r[0] == "res" and r[2].startswith("self.") and r[2].endswith(".get") and roles.get(r[2][5:-4]) == "TRACKER"
    run.check(plain, "VAR", "getter", f"{s.path}:{s.fn.lineno}", f"{cls.name}.variances", f"variances = {ir.show_nl(r)}",
              f"the reported variances must be the variance trackers' values themselves (running statistics of "
              f"squares, hence non-negative); found {ir.show_nl(r)}", f"variances = {ir.show_nl(r)}")
    vf = r[2][5:-4] if plain else None
    # every update of the variance trackers feeds even powers
    n = 0
    for c in explainer_classes(prog):
        if cls not in prog.mro(c):
            continue
        for m in ("explain_one",):
            es = prog.summarise(c, m)
            run.analysed_fn(f"{c.name}.{m}")
            for ev, ctx in walk(es.events):
                if isinstance(ev, ir.Call) and vf and ev.callee == f"self.{vf}" and ev.method == "update":
                    n += 1
                    run.analysed["call_sites"] += 1
                    d = ev.args[0] if ev.args else None
                    if d is not None and d[0] == "res" and d[3] and isinstance(d[3][0], tuple) and (
                            d[3][0][0] == "owned" or (d[3][0][0] == "new" and isinstance(d[3][0][2], str) and d[3][0][2].startswith("ixai."))):
                        # computed by a method of a package object that is not followed (a dict subclass with behaviour)
                        raise AnalysisError(f"{c.name}.{m}: the values fed to the variance trackers come from {ir.show_nl(d)[:80]}; "
                                            f"what that method computes is not decided")
                    ok = d is not None and d[0] == "comp" and d[1] == "dict" and _even_power(d[5])
                    run.check(ok, "VAR", f"{c.name}.squares", f"{es.path}:{ev.line}", f"{c.name}.{m}",
                              f"variance update {ir.show_nl(d)[:140] if d else None}",
                              "values fed to the variance trackers must be squares (even powers) so that tracked "
                              f"variances are non-negative; found {ir.show_nl(d)[:160] if d else None}",
                              f"variance update with {ir.show_nl(d[5])[:100] if ok else ''}")
    run.need(n >= 2 or run.findings, f"only {n} variance-tracker updates found in the explainers (expected >= 2)")
    # alpha range check on the value actually used
    init = prog.summarise(cls, "__init__")
    run.analysed_fn(f"{cls.name}.__init__")
    from .explcore import alpha_field
    afield, alpha = alpha_field(prog, cls)
    run.need(alpha is not None, "the exponential smoothing tracker is not constructed with a smoothing parameter")
    dyn = ("param", "dynamic_setting")
    ok = False
    for cond, guards, gl in guard_conditions(init.events):
        b = bounds_from(cond, alpha)
        if b.get("lo") == 0 and b.get("lo_strict") and b.get("hi") == 1 and not b.get("hi_strict") and \
                all(g == dyn for g in guards):
            ok = True
    run.check(ok, "VAR", "alpha-range", f"{init.path}:{init.fn.lineno}", f"{cls.name}.__init__", "alpha range check",
              "no dominating check 0 < alpha <= 1 on the smoothing parameter actually used in the dynamic setting",
              "assert 0 < effective alpha <= 1 under dynamic_setting")


def _even_power(t):
    if t[0] == "op" and t[1] == "**" and const_value(t[3]) is not None:
        e = const_value(t[3])
        return e.denominator == 1 and e > 0 and e % 2 == 0
    if t[0] == "op" and t[1] == "*" and ir.strip_sites(t[2]) == ir.strip_sites(t[3]):
        return True
    if t[0] == "fn" and t[1] in ("square",):
        return True
    if t[0] == "fn" and t[1] == "float" and len(t[2]) == 1:
        return _even_power(t[2][0])
    return False


# ------------------------------------------------------------------------------------------------
def _bound(run, prog):
    cls = _owner_of(prog, "get_confidence_bound")
    s = prog.summarise(cls, "get_confidence_bound")
    fq = f"{cls.name}.get_confidence_bound"
    run.analysed_fn(fq)
    _, fn = prog.find_method(cls, "get_confidence_bound")
    delta = ("param", [a.arg for a in fn.args.args][1])
    ok = False
    for cond, guards, gl in guard_conditions(s.events):
        b = bounds_from(cond, delta)
        if not guards and b.get("lo") == 0 and b.get("lo_strict") and b.get("hi") == 1 and not b.get("hi_strict"):
            ok = True
    run.check(ok, "BOUND", "delta-range", f"{s.path}:{s.fn.lineno}", fq, "delta range check",
              "no unconditional check 0 < delta <= 1", "assert 0 < delta <= 1")
    from .common import dict_build
    r = s.ret
    db = dict_build(r, s.events)
    ok_keys = db is not None and len(db.entries) == 1 and db.over == ("field0", "feature_names") and \
        db.entries[0][0] == ("elem", db.lid) and not db.init_items and not (db.kind == "comp" and r[6]) and \
        not (db.entries[0][2] is not None and db.entries[0][2].guards)
    if not ok_keys:
        run.fail("BOUND", "keys", f"{s.path}:{s.fn.lineno}", fq, f"result {ir.show_nl(r)[:120]}",
                 "the bound must be reported for exactly the explained feature names")
        return
    val = db.entries[0][1]
    elem = ("elem", db.lid)
    vs = prog.summarise(cls, "variances").ret
    var_terms = [t for t in ir.subterms(val) if t[0] == "sub" and t[2] == elem and t[1][0] == "res" and
                 t[1][2].endswith(".get") and "varia" in t[1][2]]
    if not var_terms:
        var_terms = [t for t in ir.subterms(val) if t[0] == "sub" and t[2] == elem]
    if not var_terms:
        run.fail("BOUND", "formula", f"{s.path}:{s.fn.lineno}", fq, "no per-feature variance in the bound",
                 "the bound does not use the feature's tracked variance")
        return
    VAR = var_terms[0]
    from .explcore import alpha_field
    afield, _ = alpha_field(prog, cls)
    run.need(afield is not None, "the effective smoothing parameter is not kept in a field")
    A, T = ("field0", afield), ("field0", "seen_samples")
    one, two = ("const", 1), ("const", 2)
    ref = ("op", "+", ("op", "**", ("op", "-", one, A), T),
           ("fn", "sqrt", (("op", "/", ("op", "*", VAR, A), ("op", "*", ("op", "-", two, A), delta)),)))
    atoms = {A: "alpha", T: "t", VAR: "var", delta: "delta"}
    try:
        same, info = identical(val, ref, atoms=atoms)
    except OutOfDomain as e:
        raise AnalysisError(f"confidence bound leaves the normaliser domain: {e}")
    run.check(same, "BOUND", "formula", f"{s.path}:{s.fn.lineno}", fq, f"bound = {ir.show_nl(val)[:200]}",
              f"the bound must equal (1-alpha)**t + sqrt(var*alpha/((2-alpha)*delta)); {info if not same else ''}",
              "bound == (1-alpha)**t + sqrt(var*alpha/((2-alpha)*delta)) in radical normal form")


_B = "ixai/explainer/base.py"
_NEW = ("        if factor == 0:\n            return {feature: 0.0 for feature, importance_value in importance_values.items()}\n"
        "        return {feature: importance_value / factor for feature, importance_value in importance_values.items()}\n")
_OLD = ("        try:\n            return {feature: importance_value / factor for feature, importance_value in importance_values.items()}\n"
        "        except ZeroDivisionError:\n            return {feature: 0.0 for feature, importance_value in importance_values.items()}\n")
WITNESSES = [
    ("zero fallback via except ZeroDivisionError (pre-repair)", [(_B, _NEW, _OLD)]),
    ("abs(sum) as normaliser", [(_B, "factor = sum(importance_values_list)", "factor = abs(sum(importance_values_list))")]),
    ("max only in delta mode", [(_B, "factor = max(importance_values_list) - min(importance_values_list)", "factor = max(importance_values_list)")]),
    ("delta outside the root", [(_B, "(1 / math.sqrt(delta)) * math.sqrt(self.variances[feature_name])", "(1 / delta) * math.sqrt(self.variances[feature_name])")]),
    ("2 + alpha", [(_B, "(2 - self._smoothing_alpha)", "(2 + self._smoothing_alpha)")]),
    ("(1-alpha) * t", [(_B, "(1 - self._smoothing_alpha) ** self.seen_samples", "(1 - self._smoothing_alpha) * self.seen_samples")]),
    ("effective alpha 1/t in the static setting", [(_B, "        return {\n            feature_name:\n                (1 - self._smoothing_alpha) ** self.seen_samples +",
                                                    "        alpha = self._smoothing_alpha if self.seen_samples < 5 else 1 / self.seen_samples\n        return {\n            feature_name:\n                (1 - alpha) ** self.seen_samples +")]),
    ("unknown mode falls back to sum", [(_B, "            raise NotImplementedError(f\"The mode must be either 'sum', or 'delta' not '{mode}'.\")", "            factor = sum(importance_values_list)")]),
    ("variance getter subtracts the squared importance", [(_B, "        return self._variance_trackers.get()", "        return {k: v - self.importance_values[k] ** 2 for k, v in self._variance_trackers.get().items()}")]),
    ("pfi variance fed with absolute deviations", [("ixai/explainer/pfi.py", "(pfi[feature] - self.importance_values[feature]) ** 2", "abs(pfi[feature] - self.importance_values[feature])")]),
    ("range check on the raw Optional alpha (pre-repair)", [(_B, "assert 0. < self._smoothing_alpha <= 1.", "assert 0. < smoothing_alpha <= 1.")]),
    ("delta check dropped", [(_B, "        assert 0 < delta <= 1., f\"Delta must be float in the interval of ]0,1] and not {delta}.\"\n", "")]),
]
SILENT = [
    ("factor != 0 branch first", [(_B, _NEW, "        if factor != 0:\n            return {feature: importance_value / factor for feature, importance_value in importance_values.items()}\n        return {feature: 0.0 for feature, importance_value in importance_values.items()}\n")]),
    ("single square root", [(_B, "                (1 / math.sqrt(delta)) * math.sqrt(self.variances[feature_name]) *\n                math.sqrt(self._smoothing_alpha / (2 - self._smoothing_alpha))",
                             "                math.sqrt(self.variances[feature_name] * self._smoothing_alpha / ((2 - self._smoothing_alpha) * delta))")]),
    ("pfi variance as product", [("ixai/explainer/pfi.py", "variances = {feature: (pfi[feature] - self.importance_values[feature]) ** 2\n                         for feature in self.feature_names}",
                                  "variances = {feature: (pfi[feature] - self.importance_values[feature]) * (pfi[feature] - self.importance_values[feature])\n                         for feature in self.feature_names}")]),
]
