"""C13 -- a river metric used as loss is a pure, smaller-is-better function of its inputs (ixai side).

 PAIR   RiverMetricToLossFunction.__call__: on every path exactly one update(A), then one get(), then one
        revert(A') with A' == A term-for-term, and nothing else on the metric; the same pairing in both
        probe arms of the validator;
 SIGN   returned value == get-result * sign; sign == -1 exactly when the metric's own
        `bigger_is_better` attribute is set, else +1;
 AGREE  single-value metrics receive y_prediction.get(L, 0) with L the wrappers' default label, dict metrics
        the dict itself; the validator passes dict_input_metric=False in the scalar-probe arm and True in
        the dict-probe arm; validate_loss_function converts Metric instances and passes callables through.
"""
from .. import ir
from ..paths import paths, walk, root
from ..report import AnalysisError
from .common import gate_on, const_value, new_items

META = {
    "explanation": "PAIR/typestate over every path of RiverMetricToLossFunction.__call__ and of both probe arms of the "
                   "loss validator (update/get/revert ordering and argument identity as terms), FORMULA on the sign "
                   "field and the returned value, AGREE between the label read by the adapter and the label the model "
                   "wrappers write, and between probe arm and dict_input_metric flag.",
    "trusted_base": ["river's Metric.revert is the exact inverse of Metric.update", "which metrics river accepts"],
    "assumptions": ["the metric object is used by one thread at a time"],
    "not_decided": "behaviour of the river metric objects themselves (library code outside /repo)",
}
META["explanation"] += " Also COPY (the sign survives copying / pickling) and: no explainer updates the user's metric object outside the wrapper."
META["explanation"] += ' Round 5: __call__ leaves its arguments unchanged; the dict flag kept in a derived form (Enum, strategy object) is not decided. HAZARD: constructs that do not mean what they look like, met in the analysed code (defaults evaluated once, class-level containers changed through self, dict.fromkeys with a shared mutable value, late-binding lambdas, truth value of objects that define __len__) are reported by every check.'
MIN_INSTANCES = {"PAIR": 3, "SIGN": 2, "AGREE": 4, "COPY": 1}
CLS = "RiverMetricToLossFunction"
VALIDATOR = "ixai.utils.validators.loss._get_loss_function_from_river_metric"


def _metric_events(events, is_metric):
    out = []
    for ev in events:
        if isinstance(ev, ir.Call) and ev.method and is_metric(ev.recv):
            out.append(ev)
        elif isinstance(ev, ir.Mut) and is_metric(ev.recv):
            out.append(ev)
    return out


def _args(ev):
    return (tuple(ev.args), tuple(sorted(ev.kwargs)))


def _pair(run, evs, where_path, fq, inst, gtxt, line0):
    """update ; get? ; revert with identical arguments. Returns (ok, get-event)."""
    names = [e.method for e in evs]
    ups = [e for e in evs if e.method == "update"]
    revs = [e for e in evs if e.method == "revert"]
    gets = [e for e in evs if e.method == "get"]
    others = [e for e in evs if e.method not in ("update", "revert", "get")]
    if others:
        run.fail("PAIR", inst, f"{where_path}:{others[0].line}", fq, f"foreign metric call .{others[0].method}",
                 f"[{gtxt}] the metric is also touched by .{others[0].method}(...)")
        return False, None
    if len(ups) != 1 or len(revs) != 1:
        line = (ups + revs)[0].line if (ups + revs) else line0
        run.fail("PAIR", inst, f"{where_path}:{line}", fq, f"metric calls {names} [{gtxt}]",
                 f"[{gtxt}] every evaluation must perform exactly one update and one matching revert; this path performs "
                 f"{names or 'no metric call'} -- the metric is left modified")
        return False, None
    order = {id(e): i for i, e in enumerate(evs)}
    if order[id(revs[0])] < order[id(ups[0])]:
        run.fail("PAIR", inst, f"{where_path}:{revs[0].line}", fq, "revert before update",
                 f"[{gtxt}] revert precedes update")
        return False, None
    if ir.strip_sites(_args(ups[0])) != ir.strip_sites(_args(revs[0])):
        run.fail("PAIR", inst, f"{where_path}:{revs[0].line}", fq,
                 f"revert({_show_args(revs[0])}) vs update({_show_args(ups[0])})",
                 f"[{gtxt}] revert is called with ({_show_args(revs[0])}) but update with ({_show_args(ups[0])}): the "
                 f"pair does not cancel")
        return False, None
    for g in gets:
        if not (order[id(ups[0])] < order[id(g)] < order[id(revs[0])]):
            run.fail("PAIR", inst, f"{where_path}:{g.line}", fq, "get outside update..revert",
                     f"[{gtxt}] the metric is read outside the update/revert window")
            return False, None
    return True, (gets[0] if gets else None)


def _show_args(ev):
    return ", ".join([ir.show_nl(a) for a in ev.args] + [f"{k}={ir.show_nl(v)}" for k, v in ev.kwargs])


def _user_metric(run, prog):
    """The metric object the user hands to an explainer is only ever used through the loss wrapper: a class that keeps
    the raw object in a field of its own and calls a state-changing method on it changes what every later loss
    evaluation (which updates and reverts the same object) reads."""
    import ast
    from .common import explainer_classes
    from .copylib import READ_ONLY
    n = 0
    for cls in explainer_classes(prog):
        try:
            init = prog.summarise(cls, "__init__")
        except ir.Unsupported:
            continue
        _, ifn = prog.find_method(cls, "__init__")
        lossp = [a.arg for a in ifn.args.args + ifn.args.kwonlyargs if "loss" in a.arg]
        if not lossp:
            continue
        n += 1

        def raw(t):
            if not isinstance(t, tuple) or not t:
                return False
            if t[0] == "res" and isinstance(t[2], str) and t[2].endswith("validate_loss_function"):
                return False                        # wrapped: the wrapper brackets every use
            if t[0] == "param" and t[1] in lossp:
                return True
            return any(raw(x) for x in t if isinstance(x, tuple))
        holders = [f for f, v in init.fields.items() if raw(v)]
        bad = None
        for f in holders:
            for k in prog.mro(cls):
                for mname, fn in k.methods.items():
                    for node in ast.walk(fn):
                        if isinstance(node, ast.Call) and isinstance(node.func, ast.Attribute) and \
                                isinstance(node.func.value, ast.Attribute) and node.func.value.attr == f and \
                                isinstance(node.func.value.value, ast.Name) and node.func.value.value.id == "self" and \
                                node.func.attr not in READ_ONLY and node.func.attr not in ("get", "bigger_is_better", "clone"):
                            bad = bad or (k, fn, node, f)
        if bad:
            k, fn, node, f = bad
            run.fail("PAIR", f"{cls.name}.user-metric", f"{k.module.path}:{node.lineno}", f"{k.name}.{fn.name}",
                     f"self.{f}.{node.func.attr}(...) on the user's metric object",
                     f"{cls.name} keeps the metric object the user handed in (self.{f}) and calls `{node.func.attr}` on it: the "
                     f"metric's running state changes for good, so every later loss value (computed by update / get / revert on "
                     f"the same object) includes these observations, and so does any other explainer sharing the metric")
        else:
            run.ok("PAIR", f"{cls.name}.user-metric", "the user's metric object is only used through the loss wrapper")
    return n


def check(run):
    _check_own(run)
    _user_metric(run, run.prog)
    # COPY: a copied loss keeps its metric, its input mode and its sign
    from .copylib import copy_protocol
    prog = run.prog
    for cls in [prog.find_class(CLS)]:
        if cls is not None:
            copy_protocol(run, prog, cls)


def _check_own(run):
    prog = run.prog
    cls = prog.find_class(CLS)
    run.need(cls is not None, f"anchor class {CLS} vanished")
    init = prog.summarise(cls, "__init__")
    run.analysed_fn(f"{CLS}.__init__")
    _, ifn = prog.find_method(cls, "__init__")
    pnames = [a.arg for a in ifn.args.args][1:]
    run.need(len(pnames) >= 2, "constructor does not take (metric, dict flag)")
    mp, dp = ("param", pnames[0]), ("param", pnames[1])
    mf = next((f for f, t in init.fields.items() if t == mp), None)
    df = next((f for f, t in init.fields.items() if t == dp), None)
    run.need(mf is not None, "metric is not stored in a field")
    if df is None:
        # the flag may be kept in another form (a member of an enumeration picked by it, a strategy object): how
        # __call__ reads that form back is not followed -- no verdict
        derived = [f for f, t in init.fields.items()
                   if dp in ir.subterms(t) and any(x[0] in ("enum", "new", "closure", "partial") for x in ir.subterms(t))]
        run.need(not derived, f"the dict_input_metric argument is kept in a derived form (self.{derived[0] if derived else ''}); "
                              f"how __call__ reads it back is not decided")
    run.check(df is not None, "AGREE", "init.flag", f"{init.path}:{init.fn.lineno}", f"{CLS}.__init__", "dict flag field",
              "the dict_input_metric argument is not stored unchanged", f"self.{df} = {pnames[1]}")
    # ---- SIGN: the factor the metric's value is multiplied with, traced back to the constructor ---------------
    import ast as _ast

    def class_default(f):
        for k in prog.mro(cls):
            node = k.class_attrs.get(f)
            if isinstance(node, _ast.Constant):
                return ("const", node.value)
            if isinstance(node, _ast.UnaryOp) and isinstance(node.op, _ast.USub) and isinstance(node.operand, _ast.Constant):
                return ("const", -node.operand.value)
        return None

    def resolve(t, depth=0):
        """the term with every field replaced by what the constructor leaves there (class-level defaults included)"""
        if depth > 3 or not isinstance(t, tuple) or not t:
            return t
        if t[0] == "field0":
            if depth and t[1] not in init.fields:
                return class_default(t[1]) or t
            v = init.fields.get(t[1])
            if v is None:
                return class_default(t[1]) or t
            return resolve(ir.subst(v, {t: class_default(t[1]) or t}), depth + 1) if v != t else (class_default(t[1]) or t)
        return tuple(resolve(x, depth) if isinstance(x, tuple) else x for x in t)

    def unwrap(c):
        while c[0] == "fn" and c[1] == "bool" and len(c[2]) == 1:
            c = c[2][0]
        return c

    def sign_shape(t):
        return t[0] == "gate" and {const_value(t[2]), const_value(t[3])} == {1, -1}
    sf = next((f for f, t in init.fields.items() if sign_shape(resolve(("field0", f)))), None)
    sign_expr = ("field0", sf) if sf is not None else None
    if sf is None:
        # no field holds the sign: take the factor of the returned value
        for ev, _ in walk(prog.summarise(cls, "__call__").events):
            if isinstance(ev, ir.Return) and ev.value[0] == "op" and ev.value[1] == "*":
                for x in (ev.value[2], ev.value[3]):
                    if sign_shape(resolve(x)):
                        sign_expr = x
    if sign_expr is None:
        cands = [f for f, t in init.fields.items() if f not in (mf, df)]
        run.fail("SIGN", "init.sign", f"{init.path}:{init.fn.lineno}", f"{CLS}.__init__",
                 f"sign = {ir.show_nl(init.fields.get(cands[0])) if cands else None}",
                 "the sign must be -1 for bigger-is-better metrics and +1 otherwise")
    else:
        t = resolve(sign_expr)
        cond, neg_first = unwrap(t[1]), const_value(t[2]) == -1
        attr = ("attr", mp, "bigger_is_better")
        lits = [unwrap(l) for l in (cond[1] if cond[0] == "and" else [cond])]
        has_attr = attr in lits or ("fn", "getattr", (mp, ("const", "bigger_is_better"), ("const", False))) in lits
        only = all(l == attr or l == ("fn", "hasattr", (mp, ("const", "bigger_is_better"))) or
                   (l[0] == "fn" and l[1] == "getattr" and l[2][:2] == (mp, ("const", "bigger_is_better")))
                   for l in lits)
        run.check(has_attr and only and neg_first, "SIGN", "init.sign", f"{init.path}:{init.fn.lineno}",
                  f"{CLS}.__init__", f"sign = {ir.show_nl(t)}",
                  f"sign must be -1 exactly when the metric's own bigger_is_better attribute is true; found {ir.show_nl(t)}",
                  f"sign = {ir.show_nl(t)}")
    # ---- __call__ ------------------------------------------------------------------------------------
    s = prog.summarise(cls, "__call__")
    fq = f"{CLS}.__call__"
    run.analysed_fn(fq)
    _, cfn = prog.find_method(cls, "__call__")
    cn = [a.arg for a in cfn.args.args][1:]
    y_true, y_pred = ("param", cn[0]), ("param", cn[1])
    M = ("field0", mf)
    # the arguments are the caller's objects: the loss reads them (a prediction dict that gains or loses an entry is
    # not the pair the caller asked about, and the caller keeps the changed dict)
    touched = [ev for ev, _ in walk(s.events)
               if (isinstance(ev, ir.Mut) and root(ev.recv) in (y_true, y_pred)) or
               (isinstance(ev, (ir.SubStore, ir.Del)) and root(ev.cont) in (y_true, y_pred)) or
               (isinstance(ev, ir.AttrStore) and root(ev.obj) in (y_true, y_pred))]
    run.check(not touched, "PAIR", "call.arguments-unchanged", f"{s.path}:{touched[0].line if touched else s.fn.lineno}", fq,
              f"{len(touched)} writes into the arguments",
              f"__call__ changes one of its arguments in place ({run.stmt_text(s.path, touched[0].line) if touched else ''}): the "
              f"metric then sees a different pair than the caller passed (and the caller's prediction dict stays changed)",
              "y_true / y_prediction are only read")
    ps = paths(s.events, unroll=1)
    run.analysed["paths"] += len(ps)
    wrapper = prog.find_class("Wrapper")
    run.need(wrapper is not None, "anchor class Wrapper vanished")
    label = prog.summarise(wrapper, "__init__").fields.get("default_label")
    run.need(label is not None and label[0] == "const", "Wrapper.default_label is not a constant")
    all_ok = True
    for p in ps:
        gtxt = " & ".join(ir.show_nl(g) for g in p.guards) or "always"
        evs = []
        for e in p.events:
            if isinstance(e, ir.Call) and e.callee == f"self.{mf}":
                evs.append(e)
            elif isinstance(e, (ir.Call, ir.Mut)) and getattr(e, "recv", None) == M and getattr(e, "method", None):
                evs.append(e)
        ok, g = _pair(run, evs, s.path, fq, "call.pair", gtxt, s.fn.lineno)
        all_ok &= ok
        if not ok:
            continue
        up = next(e for e in evs if e.method == "update")
        kw = dict(up.kwargs)
        yt = kw.get("y_true", up.args[0] if up.args else None)
        yp = kw.get("y_pred", up.args[1] if len(up.args) > 1 else None)
        yp = ir.assume(yp, list(p.guards)) if yp is not None else None
        if yt != y_true:
            all_ok = False
            run.fail("PAIR", "call.y_true", f"{s.path}:{up.line}", fq, f"y_true = {ir.show_nl(yt) if yt else None}",
                     f"[{gtxt}] the metric is updated with {ir.show_nl(yt) if yt else None} instead of the true label")
        from .boolalg import holds, excluded
        dict_mode = holds(p.guards, ("field0", df)) if df else None
        scalar_mode = excluded(p.guards, ("field0", df)) if df else None
        if scalar_mode:
            ok2 = yp is not None and yp[0] == "res" and yp[2] == ".get" and yp[3][0] == y_pred and \
                len(yp[3]) >= 2 and yp[3][1] == label and (len(yp[3]) < 3 or const_value(yp[3][2]) == 0)
            run.check(ok2, "AGREE", "call.scalar-input", f"{s.path}:{up.line}", fq,
                      f"scalar input {ir.show_nl(yp) if yp else None}",
                      f"[{gtxt}] single-value metrics must receive y_prediction.get({label[1]!r}, 0) -- the label the "
                      f"wrappers write; found {ir.show_nl(yp) if yp else None}", f"y_pred = y_prediction.get({label[1]!r}, 0)")
        elif dict_mode:
            run.check(yp == y_pred, "AGREE", "call.dict-input", f"{s.path}:{up.line}", fq,
                      f"dict input {ir.show_nl(yp) if yp else None}",
                      f"[{gtxt}] dict metrics must receive the prediction dict itself; found {ir.show_nl(yp) if yp else None}",
                      "y_pred = y_prediction")
        else:
            all_ok = False
            run.fail("AGREE", "call.mode", f"{s.path}:{up.line}", fq, f"input selection [{gtxt}]",
                     f"[{gtxt}] the choice between scalar and dict input does not depend on the dict_input_metric flag")
        # returned value
        rets = [e for e in p.events if isinstance(e, ir.Return)]
        if not rets or g is None:
            all_ok = False
            run.fail("SIGN", "call.return", f"{s.path}:{s.fn.lineno}", fq, f"no get/return [{gtxt}]",
                     f"[{gtxt}] the loss is not read from the metric between update and revert")
            continue
        rv = ir.assume(rets[-1].value, list(p.guards))
        sg = sign_expr
        good = sg is not None and rv in (("op", "*", g.res, sg), ("op", "*", sg, g.res))
        if not good:
            all_ok = False
        run.check(good, "SIGN", "call.return", f"{s.path}:{rets[-1].line}", fq, f"returns {ir.show_nl(rv)}",
                  f"[{gtxt}] the loss must be metric.get() (read between update and revert) times the sign; found "
                  f"{ir.show_nl(rv)}", "returns metric.get() * sign")
    if all_ok:
        run.ok("PAIR", "call.pair", f"{len(ps)} paths: update(A); get(); revert(A) with identical argument terms")
    # ---- validator (analysed through the public entry point, with the probing helper inlined) ------------
    DISPATCH = "ixai.utils.validators.loss.validate_loss_function"
    v = prog.summarise_func(DISPATCH)
    vq = "validate_loss_function"
    run.analysed_fn(vq)
    _, dfn = prog.func(DISPATCH)
    vm = ("param", dfn.args.args[0].arg)
    # a callable that is not a river metric is never rejected
    from .boolalg import holds
    ism = ("fn", "isinstance", (vm, ("global", "river.metrics.base.Metric")))
    for ev, ctx in walk(v.events):
        if isinstance(ev, ir.Raise) and not holds(tuple(ctx.guards), ism) and not [h for t, h in ctx.tries if h != "body"]:
            gtxt = " & ".join(ir.show_nl(g)[:60] for g in ctx.guards) or "always"
            run.fail("AGREE", "dispatch.reject", f"{v.path}:{ev.line}", "validate_loss_function",
                     f"raises under [{gtxt}]",
                     f"any callable that is not a river metric must be accepted and returned unchanged; the validator raises "
                     f"under [{gtxt}] (a loss with an optional third parameter, a functools.partial or a callable object "
                     f"is rejected although it can be called as loss(y_true, y_pred))")
            break
    tries = [ev for ev, _ in walk(v.events, structural=True) if isinstance(ev, ir.Try) and
             any(isinstance(e, (ir.Call, ir.Mut)) and getattr(e, "method", None) in ("update", "revert") for e, _ in walk(ev.body))]
    run.need(len(tries) == 1, "validator no longer probes inside one try")
    arms = [("scalar", tries[0].body)] + [("handler:" + "/".join(h.exc), h.body) for h in tries[0].handlers]
    n_arms = 0
    for name, body in arms:
        evs = [e for e, _ in walk(body) if isinstance(e, (ir.Call, ir.Mut)) and getattr(e, "recv", None) == vm and
               getattr(e, "method", None)]
        cons = [e for e, _ in walk(body) if isinstance(e, ir.Construct) and e.qual == cls.qual]
        if not evs and not cons:
            continue
        n_arms += 1
        ok, _ = _pair(run, evs, v.path, vq, f"probe.{name}", name, tries[0].line)
        if not ok:
            continue
        up = next(e for e in evs if e.method == "update")
        kw = dict(up.kwargs)
        yp = kw.get("y_pred", up.args[1] if len(up.args) > 1 else None)
        is_dict = yp is not None and yp[0] == "new" and yp[2] == "dict"
        run.ok("PAIR", f"probe.{name}", f"update/revert with identical probe arguments ({'dict' if is_dict else 'scalar'})")
        for c in cons:
            ckw = dict(c.kwargs)
            flag = ckw.get(pnames[1], c.args[1] if len(c.args) > 1 else ("const", False))
            metric = ckw.get(pnames[0], c.args[0] if c.args else None)
            run.check(flag == ("const", is_dict) and metric == vm, "AGREE", f"probe.flag.{name}", f"{v.path}:{c.line}", vq,
                      f"{name}: dict_input_metric={ir.show_nl(flag)}",
                      f"the {'dict' if is_dict else 'scalar'}-probe arm must build the adapter with "
                      f"dict_input_metric={is_dict} for the same metric; found {ir.show_nl(flag)}",
                      f"{name}: dict_input_metric={is_dict}")
    run.need(n_arms >= 2, "validator has fewer than two probe arms")
    # ---- validate_loss_function dispatch ---------------------------------------------------------------
    r = v.ret
    sel = gate_on(r, ("fn", "isinstance", (vm, ("global", "river.metrics.base.Metric"))))
    adapters = {ev.res for ev, _ in walk(v.events) if isinstance(ev, ir.Construct) and ev.qual == cls.qual}
    ok = sel is not None and sel[1] == vm and all(
        x in adapters or x in (ir.RAISES, ("raise",)) for x in _leaves(sel[0]))
    run.check(ok, "AGREE", "dispatch", f"{v.path}:{v.fn.lineno}", "validate_loss_function", f"returns {ir.show_nl(r)[:160]}",
              f"river Metric instances must be converted and any other callable returned unchanged; found {ir.show_nl(r)[:200]}",
              "isinstance(loss, Metric) ? adapter(loss) : loss")


def _leaves(t):
    """Values a returned term can take (through selections and try/except merges)."""
    if t[0] == "gate":
        return _leaves(t[2]) + _leaves(t[3])
    if t[0] == "tryret":
        return [x for r in t[2] for x in _leaves(r)]
    if t[0] == "tryphi" and len(t) >= 4:
        return [x for r in t[3] for x in _leaves(r)]        # a variable set in the try body / in a handler
    return [t]


_R = "ixai/utils/wrappers/river.py"
_L = "ixai/utils/validators/loss.py"
WITNESSES = [
    ("revert dropped", [(_R, "        self._river_metric.revert(y_true=y_true, y_pred=y_prediction)\n", "")]),
    ("revert with other arguments", [(_R, "self._river_metric.revert(y_true=y_true, y_pred=y_prediction)", "self._river_metric.revert(y_true=y_prediction, y_pred=y_true)")]),
    ("get after revert", [(_R, "        loss_i = self._river_metric.get()\n        self._river_metric.revert(y_true=y_true, y_pred=y_prediction)\n",
                            "        self._river_metric.revert(y_true=y_true, y_pred=y_prediction)\n        loss_i = self._river_metric.get()\n")]),
    ("inverted sign", [(_R, "            self._sign = -1.", "            self._sign = 1."), (_R, "        self._sign = 1.\n", "        self._sign = -1.\n")]),
    ("label typo", [(_R, "y_prediction.get('output', 0)", "y_prediction.get('outputs', 0)")]),
    ("early return before the revert", [(_R, "        loss_i = self._river_metric.get()\n", "        loss_i = self._river_metric.get()\n        if loss_i != loss_i:\n            return 0.\n")]),
    ("sign by metric class", [(_R, "if hasattr(self._river_metric, \"bigger_is_better\") and self._river_metric.bigger_is_better:",
                               "if isinstance(self._river_metric, Metric) and self._river_metric.works_with_weights:")]),
    ("probe flag from requires_labels", [(_L, "RiverMetricToLossFunction(river_metric=river_metric, dict_input_metric=False)",
                                          "RiverMetricToLossFunction(river_metric=river_metric, dict_input_metric=not getattr(river_metric, 'requires_labels', True))")]),
    ("probe not reverted", [(_L, "        _ = river_metric.revert(y_true=0, y_pred=0)\n", "")]),
    ("sign not applied", [(_R, "return loss_i * self._sign", "return loss_i")]),
    ("missing label counts as 1", [(_R, "y_prediction.get('output', 0)", "y_prediction.get('output', 1)")]),
]
SILENT = [
    ("positional metric arguments", [(_R, "_ = self._river_metric.update(y_true=y_true, y_pred=y_prediction)", "self._river_metric.update(y_true, y_prediction)"),
                                     (_R, "self._river_metric.revert(y_true=y_true, y_pred=y_prediction)", "self._river_metric.revert(y_true, y_prediction)")]),
    ("sign on the left", [(_R, "return loss_i * self._sign", "return self._sign * loss_i")]),
    ("label from the Wrapper default", [(_R, "y_prediction.get('output', 0)", "y_prediction.get(\"output\", 0)")]),
]
