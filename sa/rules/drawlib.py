"""RNG primitive table (DESIGN.md 4.6) and recognisers for uniform draws on the IR."""
from .. import ir
from ..poly import Normaliser, OutOfDomain
from .common import const_value

UNIFORM01 = {"random.random", "numpy.random.random", "numpy.random.rand", "numpy.random.random_sample",
             "numpy.random.sample", "numpy.random.ranf"}
KNOWN = UNIFORM01 | {
    "random.randrange", "random.randint", "random.choice", "random.sample", "random.shuffle", "random.choices",
    "random.uniform", "numpy.random.permutation", "numpy.random.randint", "numpy.random.choice",
    "numpy.random.normal", "numpy.random.uniform", "numpy.random.shuffle", "random.gauss", "random.normalvariate",
}
FORBIDDEN = {"random.seed", "numpy.random.seed", "random.Random", "random.SystemRandom", "numpy.random.default_rng",
             "numpy.random.RandomState", "numpy.random.Generator", "numpy.random.SeedSequence", "random.setstate",
             "numpy.random.set_state", "random.getstate", "numpy.random.get_state"}


def is_draw(t, prims=None):
    return isinstance(t, tuple) and t and t[0] == "draw" and (prims is None or t[2] in prims)


def is_uniform01(t):
    """A fresh U[0,1) draw."""
    if not is_draw(t):
        return False
    if t[2] in UNIFORM01 and not t[3] and not t[4]:
        return True
    if t[2] in ("random.uniform", "numpy.random.uniform"):
        args = list(t[3]) + [v for _, v in t[4]]
        if not args and t[2] == "numpy.random.uniform":
            return True
        if len(args) == 2 and const_value(args[0]) == 0 and const_value(args[1]) == 1:
            return True
    return False


def draws_in(t):
    return [s for s in ir.subterms(t) if s[0] == "draw"]


def _same(a, b):
    try:
        return Normaliser().same(a, b)
    except OutOfDomain:
        return a == b


def uniform_int(t):
    """If t is a uniform integer on [lo, hi) built from one fresh draw, return (lo, hi, draw) with
    lo/hi as terms; 'unknown' if it involves an unknown primitive; None if it is not uniform."""
    one, zero = ("const", 1), ("const", 0)
    if is_draw(t):
        prim, args, kw = t[2], t[3], dict(t[4])
        if prim == "random.randrange":
            if len(args) == 1 and not kw:
                return zero, args[0], t
            if len(args) == 2 and not kw:
                return args[0], args[1], t
            return None
        if prim == "random.randint" and len(args) == 2:
            return args[0], ("op", "+", args[1], one), t
        if prim == "numpy.random.randint":
            size = kw.get("size")
            if size is not None:
                return None
            lo = args[0] if args else kw.get("low")
            hi = args[1] if len(args) > 1 else kw.get("high")
            if lo is None:
                return None
            if hi is None:
                return zero, lo, t
            return lo, hi, t
        if prim == "numpy.random.choice" and len(args) == 1 and not kw and args[0][0] != "new":
            # np.random.choice(n) with an int n; for sequences see uniform_element
            return zero, args[0], t
        if prim == "random.choice" and len(args) == 1 and args[0][0] == "fn" and args[0][1] == "range":
            r = args[0][2]
            if len(r) == 1:
                return zero, r[0], t
            if len(r) == 2:
                return r[0], r[1], t
        if prim not in KNOWN:
            return "unknown"
        return None
    # int(U * n) / floor(U * n)
    if t[0] == "fn" and t[1] in ("int", "floor") and len(t[2]) == 1:
        inner = t[2][0]
        if inner[0] == "fn" and inner[1] == "floor" and len(inner[2]) == 1:
            inner = inner[2][0]
        if inner[0] == "op" and inner[1] == "*":
            a, b = inner[2], inner[3]
            if is_uniform01(a):
                return zero, b, a
            if is_uniform01(b):
                return zero, a, b
    for d in draws_in(t):
        if d[2] not in KNOWN:
            return "unknown"
    return None


def exact_range(t, length_term):
    """Is t a uniform integer on exactly [0, length_term)? -> (verdict, draw|reason)"""
    u = uniform_int(t)
    if u == "unknown":
        return "unknown", "unknown RNG primitive"
    if u is None:
        return False, f"{ir.show_nl(t)} is not a uniform integer draw of the primitive table"
    lo, hi, d = u
    if not _same(lo, ("const", 0)):
        return False, f"range starts at {ir.show_nl(lo)}, not 0"
    if not _same(hi, length_term):
        return False, f"range ends at {ir.show_nl(hi)} (exclusive), expected {ir.show_nl(length_term)}"
    return True, d


def uniform_permutation(t, names):
    """Is t a uniformly random ordering of exactly the elements of `names` (object preserving)?
    Accepted: random.sample(names, len(names)); [names[i] for i in <uniform index permutation of
    len(names)>]; a list copy shuffled in place is handled by the caller (needs events).
    Returns (True, draw) / (False, reason) / ('unknown', reason) / ('coerce', draw)."""
    ln = ("fn", "len", (names,))
    if t[0] == "fn" and t[1] == "enumerate" and t[2]:
        return uniform_permutation(t[2][0], names)        # numbering the positions does not change the order
    if is_draw(t):
        prim, args, kw = t[2], t[3], dict(t[4])
        if prim == "random.sample" and len(args) >= 1:
            k = args[1] if len(args) > 1 else kw.get("k")
            if args[0] == names and k is not None and _same(k, ln):
                return True, t
            return False, f"random.sample over {ir.show_nl(args[0])} with k={ir.show_nl(k) if k else None}"
        if prim == "numpy.random.permutation" and len(args) == 1:
            if args[0] == names:
                return "coerce", t
            return False, f"permutation of {ir.show_nl(args[0])}, not of the feature names"
        if prim not in KNOWN:
            return "unknown", f"unknown RNG primitive {prim}"
        return False, f"{prim} is not a permutation primitive"
    if t[0] == "comp" and t[1] == "list" and not t[6]:
        lid, it, val = t[2], t[3], t[5]
        if val == ("sub", names, ("elem", lid)):
            if is_draw(it, {"numpy.random.permutation"}) and len(it[3]) == 1 and _same(it[3][0], ln):
                return True, it
            if is_draw(it, {"random.sample"}) and it[3] and it[3][0] == ("fn", "range", (ln,)):
                k = it[3][1] if len(it[3]) > 1 else dict(it[4]).get("k")
                if k is not None and _same(k, ln):
                    return True, it
            return False, f"index order {ir.show_nl(it)} is not a uniform permutation of range(len(names))"
        return False, f"elements {ir.show_nl(val)} are not names[i]"
    ds = draws_in(t)
    if any(d[2] not in KNOWN for d in ds):
        return "unknown", "unknown RNG primitive"
    return False, f"{ir.show_nl(t)} is not a uniform permutation of the feature names"
