"""Structure recovery of IncrementalSage.explain_one and the obligations shared by C01 / C03."""
from .. import ir
from ..paths import walk, paths
from ..report import AnalysisError
from .common import dict_build, const_value
from .drawlib import uniform_permutation
from .explcore import Inc, impute_args, same, MEANOUT
from .sagelib import chain_loops, is_call_to, FEATURE_NAMES, direct_events

CLS = "IncrementalSage"


class Sage(Inc):
    def __init__(self, run, prog):
        cls = prog.find_class(CLS)
        run.need(cls is not None, f"anchor class {CLS} vanished")
        super().__init__(run, prog, cls)
        s = self.s
        self.MLT = self._getter_field("marginal_loss")
        self.MoLT = self._getter_field("model_loss")
        chains = chain_loops(s.events, self.lf)
        run.need(len(chains) == 1, f"{self.fq}: expected one chain loop, found {len(chains)}")
        self.L, self.Lctx = chains[0]
        self.elem = ("elem", self.L.lid)
        if self.L.iter[0] == "fn" and self.L.iter[1] == "enumerate":
            self.elem = ("tget", ("elem", self.L.lid), 1)       # for position, feature in enumerate(chain)
        self.body = direct_events(self.L)
        # carried loss
        self.carried = None
        for name, (init, nxt) in self.L.carried.items():
            if nxt is not None and any(t[0] == "res" and t[2] == f"self.{self.lf}" for t in ir.subterms(nxt)):
                self.carried = (name, init, nxt)
        # events of the chain body
        self.imps = [(ev, ctx) for ev, ctx in self.body if is_call_to(ev, self.imf, "impute")]
        self.losses = [(ev, ctx) for ev, ctx in self.body if is_call_to(ev, self.lf) and ev.method is None]
        self.removes = [(ev, ctx) for ev, ctx in self.body if isinstance(ev, ir.Mut) and ev.method in ("remove", "discard")]
        self.credits = [(ev, ctx) for ev, ctx in self.body if isinstance(ev, ir.SubStore)]
        self.model_calls = [(ev, ctx) for ev, ctx in walk(s.events) if is_call_to(ev, self.mf) and ev.method is None]


def undecided_bookkeeping(sg):
    """The loss before a step may be kept in a container that the walk fills (a list of the losses seen so far,
    indexed by position) instead of a variable: that bookkeeping is not followed -- no verdict."""
    filled = {ev.recv for ev, _ in sg.body if isinstance(ev, ir.Mut) and ev.method in ("append", "insert", "extend")}
    for ev, _ in sg.credits:
        if any(t[0] in ("sub", "tget") and t[1] in filled for t in ir.subterms(ev.value)):
            raise AnalysisError(f"{sg.fq}: the losses along the chain are kept in a container filled during the walk "
                                f"({ir.show_nl(ev.value)[:100]}); this bookkeeping is not decided")


def telescope(sg, rule):
    """credit = c_in - new under the loop-target key; c_out = new; the dict reaches the importance trackers."""
    run, s, fq = sg.run, sg.s, sg.fq
    if sg.carried is None:
        undecided_bookkeeping(sg)
        run.fail(rule, "chain.carry", sg.where(sg.L.line), fq, "no loop-carried loss",
                 "the loss before revealing a feature is not carried over from the previous chain step (the loss after "
                 "revealing must become the loss before the next feature)")
        return None
    name, init, nxt = sg.carried
    mu = ("mu", sg.L.lid, name)
    upd = sg.updates(sg.IT)
    if len(upd) != 1:
        run.fail(rule, "chain.dict", sg.where(s.fn.lineno), fq, f"{len(upd)} importance updates",
                 f"the importance trackers must be updated exactly once per explained observation; found {len(upd)} sites")
        return None
    uev, _ = upd[0]
    D = uev.args[0] if uev.args else None
    db = dict_build(D, s.events) if D is not None else None
    if D is not None and (D[0] == "owned" or (D[0] == "new" and isinstance(D[2], str) and D[2].startswith("ixai."))):
        # the contributions are kept in an object of a package class (a dict subclass with behaviour, a record with a
        # dict inside): what its methods store is not followed here -- no verdict
        raise AnalysisError(f"{fq}: the per-feature contributions are held by {ir.show_nl(D)[:80]}, an object of a package class; "
                            f"this bookkeeping is not decided")
    if db is None:
        run.fail(rule, "chain.dict", sg.where(uev.line), fq, f"importance update with {ir.show_nl(D)[:100] if D else None}",
                 "the importance trackers are not updated with the dict of per-feature chain contributions")
        return None
    filled = {ev.recv for ev, _ in sg.body if isinstance(ev, ir.Mut) and ev.method in ("append", "insert", "extend")}
    if any(t in filled for t in ir.subterms(D)):
        raise AnalysisError(f"{sg.fq}: the contributions are computed after the walk from a container filled during it "
                            f"({ir.show_nl(D)[:100]}); this bookkeeping is not decided")
    stores = [(k, v, c, e) for k, v, c, e in db.entries]
    in_chain = [x for x in stores if x[2] is not None and any(l is sg.L for l in x[2].loops)]
    ok = len(stores) == 1 and len(in_chain) == 1 and not db.init_items and stores[0][0] == sg.elem
    why = ""
    if stores and stores[0][0] != sg.elem:
        why = f"the credit is stored under {ir.show_nl(stores[0][0])}, not under the feature being revealed"
    elif len(stores) != 1:
        why = f"{len(stores)} writes to the contributions dict"
    elif db.init_items:
        why = "the contributions dict is pre-populated"
    run.check(ok, rule, "chain.dict", sg.where(stores[0][3].line if stores and stores[0][3] else uev.line), fq,
              f"contributions dict: {why or 'ok'}",
              f"every chain step must store exactly its own credit under the revealed feature: {why}",
              "contributions[feature] written once per chain step, passed to the importance trackers")
    if not stores:
        return None
    # every link of the chain books its credit: a store that happens only under a test of its own (`if credit:` -- zero
    # credits skipped) leaves the tracker of that feature one observation behind
    if stores[0][2] is not None and sg.losses:
        base = next((set(c.guards) for e, c in walk(s.events) if e is sg.losses[-1][0]), None)
        extra = [g for g in stores[0][2].guards if g not in base] if base is not None else []
        run.check(not extra, rule, "chain.every-link", sg.where(stores[0][3].line if stores[0][3] else uev.line), fq,
                  f"credit stored under {ir.show_nl(extra[0])[:100] if extra else 'no extra condition'}",
                  f"the credit of a chain link is recorded only when {ir.show_nl(extra[0])[:120] if extra else ''} holds: features "
                  f"whose credit is skipped miss this observation in their running statistic (which then averages over "
                  f"fewer observations than the other estimates)", "contributions[feature] is written for every link")
    credit = stores[0][1]
    ref = ("op", "-", mu, nxt)
    good = same(credit, ref)
    msg = ""
    if not good:
        if same(credit, ("op", "-", nxt, mu)):
            msg = "the credit is (loss after - loss before): sign reversed"
        elif mu not in ir.subterms(credit):
            msg = "the credit does not use the loss carried over from the previous step"
        else:
            msg = f"found {ir.show_nl(credit)[:160]}"
    run.check(good, rule, "chain.credit", sg.where(stores[0][3].line if stores[0][3] else uev.line), fq,
              f"credit {ir.show_nl(credit)[:140]}",
              f"credit must be (loss before revealing) - (loss after revealing) with the loss after carried to the next "
              f"step: {msg}", f"credit = c_in - new; c_out = new = {ir.show_nl(nxt)[:80]}")
    return D, init, nxt


def chain_start(sg, rule, init):
    """c0 is the very value fed to the marginal-loss tracker."""
    run, s, fq = sg.run, sg.s, sg.fq
    ups = sg.updates(sg.MLT)
    if len(ups) != 1:
        run.fail(rule, "chain.start", sg.where(s.fn.lineno), fq, f"{len(ups)} marginal-loss updates",
                 f"the marginal-loss tracker must be updated exactly once; found {len(ups)} sites")
        return
    ev, _ = ups[0]
    arg = ev.args[0] if ev.args else None
    run.check(arg == init, rule, "chain.start", sg.where(ev.line), fq,
              f"marginal loss {ir.show_nl(arg)[:100] if arg else None} vs chain start {ir.show_nl(init)[:100]}",
              f"the chain must start at the very loss value that is fed to the marginal-loss tracker; the tracker gets "
              f"{ir.show_nl(arg)[:140] if arg else None} but the chain starts at {ir.show_nl(init)[:140]}",
              "marginal-loss tracker value == initial carried loss")


def chain_end(sg, rule):
    """the chain ends at the model loss: S starts as all features, the revealed feature leaves S before the
    imputation, the chain runs over a permutation of the same names, same x, y as the model-loss call."""
    run, s, fq = sg.run, sg.s, sg.fq
    ok = True
    if len(sg.imps) != 1:
        run.fail(rule, "chain.impute", sg.where(sg.L.line), fq, f"{len(sg.imps)} imputer calls per chain step",
                 f"each chain step must evaluate exactly one coalition; found {len(sg.imps)} imputer calls")
        return None
    iev, ictx = sg.imps[0]
    fs, xi, ns = impute_args(iev)
    S = fs
    full = S is not None and S[0] == "new" and S[2] == "set" and S[3] == (FEATURE_NAMES,)
    run.check(full, rule, "chain.complement", sg.where(iev.line), fq, f"imputed set {ir.show_nl(S)[:100] if S else None}",
              f"the imputer must receive the complement of the revealed coalition, a set that starts as all feature names; "
              f"found {ir.show_nl(S)[:140] if S else None}", "features_not_in_s starts as set(self.feature_names)")
    rem = [ev for ev, _ in sg.removes if ev.recv == S and tuple(ev.args) == (sg.elem,)]
    before = rem and sg.index[id(rem[0])] < sg.index[id(iev)]
    once = len([ev for ev, _ in sg.removes if ev.recv == S]) == 1
    other_mut = [ev for ev, _ in walk(s.events) if isinstance(ev, ir.Mut) and ev.recv == S and ev not in rem]
    why = "the revealed feature is not removed from the set" if not rem else (
        "the feature is removed only after the imputation (the coalition lags one step, the chain does not end at the "
        "model loss)" if not before else ("the set is modified elsewhere" if other_mut or not once else ""))
    run.check(bool(rem) and before and once and not other_mut, rule, "chain.shrink", sg.where(iev.line), fq,
              f"coalition update: {why or 'ok'}", f"the revealed feature must leave the imputed set before the imputation: {why}",
              "S.remove(feature) precedes impute(S) in every chain step")
    verdict, info = uniform_permutation(sg.L.iter, FEATURE_NAMES)
    if verdict == "unknown":
        raise AnalysisError(f"{fq}: {info}")
    run.check(verdict in (True, "coerce"), rule, "chain.all-features", sg.where(sg.L.line), fq,
              f"chain over {ir.show_nl(sg.L.iter)[:120]}",
              f"the chain must reveal every feature exactly once (a permutation of feature_names): {info if verdict is False else ''}",
              "chain iterates a permutation of self.feature_names")
    run.check(xi == sg.x and ns == sg.N, rule, "chain.args", sg.where(iev.line), fq,
              f"impute(x_i={ir.show_nl(xi) if xi else None}, n_samples={ir.show_nl(ns)[:60] if ns else None})",
              "the imputer must receive the explained instance and n = per-call override or configured n_inner_samples",
              "impute(S, x_i, n)")
    # model loss call and its tracker
    ups = sg.updates(sg.MoLT)
    if len(ups) != 1:
        run.fail(rule, "chain.model-loss", sg.where(s.fn.lineno), fq, f"{len(ups)} model-loss updates",
                 f"the model-loss tracker must be updated exactly once; found {len(ups)} sites")
        return iev
    arg = ups[0][0].args[0] if ups[0][0].args else None
    good = arg is not None and arg[0] == "res" and arg[2] == f"self.{sg.lf}" and len(arg[3]) == 2 and arg[3][0] == sg.y \
        and arg[3][1][0] == "res" and arg[3][1][2] == f"self.{sg.mf}" and arg[3][1][3] == (sg.x,) and not arg[4]
    run.check(good, rule, "chain.model-loss", sg.where(ups[0][0].line), fq, f"model loss {ir.show_nl(arg)[:120] if arg else None}",
              f"the model-loss tracker must receive loss(y_i, model(x_i)) of the same observation; found "
              f"{ir.show_nl(arg)[:160] if arg else None}", "model loss = loss(y_i, model(x_i))")
    return iev


def lockstep(sg, rule, E):
    run, s, fq = sg.run, sg.s, sg.fq
    ps = paths(s.events, unroll=1)
    run.analysed["paths"] += len(ps)
    bad = None
    for p in ps:
        counts = {f: sum(1 for e in p.events if is_call_to(e, f, "update")) for f in (sg.MoLT, sg.MLT, sg.IT, sg.VT)}
        explaining = E is not None and E in p.guards
        skipping = E is not None and ir.negate(E) in p.guards
        vals = set(counts.values())
        if explaining and vals != {1}:
            bad = f"explain path updates {counts}"
        if skipping:
            cb = sum(1 for e in p.events if isinstance(e, ir.Call) and e.callee in (f"self.{sg.mf}", f"self.{sg.lf}", f"self.{sg.imf}"))
            if vals != {0} or cb:
                bad = f"first-sample path performs {cb} callback calls and tracker updates {counts}"
        if not explaining and not skipping and vals != {0}:
            bad = f"a path outside the explain guard updates {counts}"
    run.check(bad is None, rule, "lockstep", sg.where(s.fn.lineno), fq, bad or "lockstep",
              f"model-loss, marginal-loss, importance and variance trackers must be updated exactly once each when "
              f"explaining and not at all otherwise: {bad}",
              f"{len(ps)} paths: all four trackers updated once iff explaining")


def getters(sg, rule):
    """explained_loss == marginal_loss - model_loss; both loss getters add the same offset."""
    run, prog, cls = sg.run, sg.prog, sg.cls
    ml = prog.summarise(cls, "marginal_loss")
    mo = prog.summarise(cls, "model_loss")
    ex = prog.summarise(cls, "explained_loss")
    for n in ("marginal_loss", "model_loss", "explained_loss"):
        run.analysed_fn(f"{cls.name}.{n}")
    g1 = ("res", "@", f"self.{sg.MLT}.get", (), ())
    g2 = ("res", "@", f"self.{sg.MoLT}.get", (), ())
    offs = [t for t in ir.subterms(ml.ret) if t[0] == "field0" and prog.summarise(cls, "__init__").fields.get(t[1], ("x",))[0] == "gate"]
    off = offs[0] if offs else ("field0", "_loss_direction")
    a, b, e = ir.strip_sites(ml.ret), ir.strip_sites(mo.ret), ir.strip_sites(ex.ret)
    atoms = {g1: "M", g2: "L", off: "d"}
    run.check(same(a, ("op", "+", g1, off), atoms), rule, "getter.marginal", f"{ml.path}:{ml.fn.lineno}",
              f"{cls.name}.marginal_loss", f"marginal_loss = {ir.show_nl(ml.ret)}",
              f"marginal_loss must be the marginal-loss tracker value plus the loss-direction offset; found {ir.show_nl(ml.ret)}",
              "marginal_loss = tracker + offset")
    run.check(same(b, ("op", "+", g2, off), atoms), rule, "getter.model", f"{mo.path}:{mo.fn.lineno}",
              f"{cls.name}.model_loss", f"model_loss = {ir.show_nl(mo.ret)}",
              f"model_loss must be the model-loss tracker value plus the same offset; found {ir.show_nl(mo.ret)}",
              "model_loss = tracker + offset")
    run.check(same(e, ("op", "-", g1, g2), atoms), rule, "getter.explained", f"{ex.path}:{ex.fn.lineno}",
              f"{cls.name}.explained_loss", f"explained_loss = {ir.show_nl(ex.ret)[:140]}",
              f"explained_loss must equal marginal - model loss (the offset cancels); found {ir.show_nl(ex.ret)[:200]}",
              "(M + d) - (L + d) == M - L in normal form")
    init = prog.summarise(cls, "__init__")
    d = init.fields.get(off[1])
    okd = d is not None and d[0] == "gate" and d[1] == ("param", "loss_bigger_is_better") and const_value(d[2]) == 1 \
        and const_value(d[3]) == 0
    run.check(okd, rule, "getter.offset", f"{init.path}:{init.fn.lineno}", f"{cls.name}.__init__",
              f"offset = {ir.show_nl(d) if d else None}",
              f"the offset must be 1 when loss_bigger_is_better is set and 0 otherwise; found {ir.show_nl(d) if d else None}",
              "offset = loss_bigger_is_better ? 1 : 0")
