"""C07 -- storages hold only observed data, within capacity, with targets aligned.

PARALLEL/COUNT container typestate over every path of every concrete `update` below BaseStorage:
 R1 at most one insertion per path, and only of the arriving instance (or a fresh copy of it);
 R2 target ops mirror instance ops (same kinds, same index terms) exactly under `store_targets`;
 R3 a growing path needs a capacity guard (len(X) < size, or arrivals <= size with an arrivals counter);
 R4 below capacity every path appends exactly once (count = min(seen, capacity));
 R5 at capacity the length is unchanged; the FIFO family evicts with popleft + append on every path;
 OBS get_data()/__len__ expose the live containers; constructor state is empty.
"""
from .. import ir
from ..paths import walk
from .storagelib import (concrete_storages, containers, update_params, ops_on, is_value, net_growth,
                         capacity_guard, full_guard, arrivals_counter, update_paths, GROW, SHRINK)
from .common import const_value

META = {
    "explanation": "PARALLEL/COUNT: container typestate over every feasible path of every concrete BaseStorage.update "
                   "(classes discovered from the hierarchy; SequenceStorage through the inherited update): inserted "
                   "value provenance, mirrored instance/target operations with identical index terms under the "
                   "store_targets guard, capacity guards on growing paths, FIFO eviction pairing, live get_data.",
    "trusted_base": ["Python list/deque semantics (append/popleft/indexed assignment)"],
    "assumptions": ["capacity >= 1", "TreeStorage is covered by C19"],
}
META["explanation"] += ' Also COPY (copy / pickle hooks of every storage keep its state), descriptors that keep a capacity on themselves, DEP-C04 ORIG; OWNER: no code outside a storage assigns its state / configuration attributes.'
META["explanation"] += ' Round 5: OWNER (above), an arrival dropped before the capacity was tested, DEP-C06 NOMUT, DEP-C14 INPUT, DEP-C15 DEFAULTS storage. HAZARD: constructs that do not mean what they look like, met in the analysed code (defaults evaluated once, class-level containers changed through self, dict.fromkeys with a shared mutable value, late-binding lambdas, truth value of objects that define __len__) are reported by every check.'
META["explanation"] += ' Round 6: no explainer changes in place a container that get_data() handed out (OWNER get_data); deque rotate(-1) + overwrite is the eviction it performs.'
MIN_INSTANCES = {"PARALLEL": 5, "COUNT": 5, "OBS": 5, "COPY": 5}

FIFO_ROOT = "IntervalStorage"


def check(run):
    prog = run.prog
    classes = concrete_storages(prog)
    run.need(len(classes) >= 5, f"only {len(classes)} concrete storages discovered (expected >= 5)")
    fifo_root = prog.find_class(FIFO_ROOT)
    run.need(fifo_root is not None, "anchor class IntervalStorage vanished")
    from .common import ctor_wiring
    for cls in classes:
        _storage(run, prog, cls, fifo_root in prog.mro(cls))
        ctor_wiring(run, prog, cls, "CTOR")         # capacity / store_targets as configured
    _outside_writes(run, prog, classes)
    from .copylib import copy_protocol
    for cls in classes:
        copy_protocol(run, prog, cls)               # copies / pickles of a storage hold what the storage holds
    from .c06 import depends_on
    depends_on(run, "C04", {"ORIG"})                # no explainer writes into the rows it reads from a storage
    depends_on(run, "C06", {"NOMUT"})               # no imputer changes the containers get_data hands out
    depends_on(run, "C14", {"INPUT"})               # the wrappers only read the rows (stored dicts) they convert
    depends_on(run, "C15", {"DEFAULTS"}, only=lambda rule, inst: inst.endswith(".storage"))   # the explainer updates the caller's storage object itself


def _outside_writes(run, prog, classes):
    """OWNER: the state and the configuration of a storage (its containers, capacity, store_targets flag, counters)
    are written by the storage's own methods only.  Code that holds a storage and assigns one of these attributes
    (`storage.store_targets = True` after observations have been stored, ...) breaks what the per-class rules have
    established for every update sequence."""
    import ast
    fields = set()
    for cls in classes:
        try:
            fields |= {f for f in prog.summarise(cls, "__init__").fields if "." not in f and not f.startswith("%")}
        except ir.Unsupported:
            pass
    family = {k.qual for c in classes for k in prog.mro(c)}
    n = 0
    for m in prog.modules.values():
        for K in list(m.classes.values()) + [None]:
            fns = list(K.methods.values()) if K is not None else list(m.functions.values())
            for fn in fns:
                me = fn.args.args[0].arg if (K is not None and fn.args.args) else None
                for x in ast.walk(fn):
                    target = attr = None
                    if isinstance(x, ast.Attribute) and isinstance(x.ctx, (ast.Store, ast.Del)) and x.attr in fields:
                        target, attr = x.value, x.attr
                    elif isinstance(x, ast.Call) and isinstance(x.func, ast.Name) and x.func.id in ("setattr", "delattr") and \
                            len(x.args) >= 2 and isinstance(x.args[1], ast.Constant) and x.args[1].value in fields:
                        target, attr = x.args[0], x.args[1].value
                    if target is None:
                        continue
                    n += 1
                    own = isinstance(target, ast.Name) and target.id == me
                    if own:
                        continue            # an object assigning its own attribute (a storage, or another class's namesake)
                    held = ast.unparse(target)
                    looks_like_storage = "storage" in held.lower() or "reservoir" in held.lower() or \
                        (K is not None and K.qual in family)
                    if not looks_like_storage:
                        continue
                    fq = f"{K.name + '.' if K else ''}{fn.name}"
                    run.fail("OWNER", f"{fq}:{attr}", f"{m.path}:{x.lineno}", fq, f"{held}.{attr} written in {fq}",
                             f"{fq} assigns `{attr}` of a storage it holds ({held}): the configuration / state of a storage is "
                             f"changed from outside after construction, e.g. targets start to be kept for a storage that "
                             f"already holds instances without targets, so instances and targets are no longer aligned")
    # what get_data() hands out are the storage's own containers: an explainer that appends to / extends / overwrites them
    # puts data into the storage that never went through update()
    from .common import explainer_classes
    from ..paths import root as _root
    for E in explainer_classes(prog):
        for mname in ("explain_one", "explain_many", "explain_many_original", "update_storage"):
            if prog.find_method(E, mname)[1] is None:
                continue
            try:
                es = prog.summarise(E, mname)
            except ir.Unsupported:
                continue
            for ev, ctx in walk(es.events):
                tgt = ev.recv if isinstance(ev, ir.Mut) else (ev.cont if isinstance(ev, (ir.SubStore, ir.Del)) else None)
                if tgt is None:
                    continue
                r = _root(tgt)
                handed = r[0] == "res" and isinstance(r[2], str) and r[2].endswith(("storage.get_data", "storage")) and "get_data" in ir.show_nl(r)
                if handed and tgt[0] in ("tget", "res") and (tgt == r or (tgt[0] == "tget" and tgt[1] == r)):
                    fq = f"{E.name}.{mname}"
                    run.fail("OWNER", f"{fq}:get_data", f"{es.path}:{ev.line}", fq, run.stmt_text(es.path, ev.line),
                             f"{fq} changes a container handed out by the storage's get_data() in place "
                             f"({run.stmt_text(es.path, ev.line)}): the storage then holds data that never arrived through "
                             f"update() (beyond its capacity, with targets although none are kept, ...)")
    if not any(f.rule == "OWNER" for f in run.findings):
        run.ok("OWNER", "package", f"{n} assignments to storage attribute names, all by the owning object")


def _storage(run, prog, cls, fifo):
    gd, conts = containers(prog, cls)
    fq = f"{cls.name}.update"
    run.analysed_fn(fq)
    run.analysed_fn(f"{cls.name}.get_data")
    # OBS: get_data returns the live containers (or fresh copies made at call time)
    ok = all(c[0] == "field0" for c in conts) and len({c[1] for c in conts if c[0] == "field0"}) == 2
    run.check(ok, "OBS", f"{cls.name}.get_data", f"{gd.path}:{gd.fn.lineno}", f"{cls.name}.get_data",
              f"get_data returns {ir.show_nl(gd.ret)}",
              f"get_data must expose the current instance and target containers, it returns {ir.show_nl(gd.ret)}",
              f"get_data -> {ir.show_nl(gd.ret)}")
    if not ok:
        return
    xf, yf = conts[0][1], conts[1][1]
    ls = prog.summarise(cls, "__len__")
    run.check(ls.ret == ("fn", "len", (("field0", xf),)), "OBS", f"{cls.name}.__len__", f"{ls.path}:{ls.fn.lineno}",
              f"{cls.name}.__len__", f"len returns {ir.show_nl(ls.ret)}",
              f"len(storage) must be the number of stored instances, it is {ir.show_nl(ls.ret)}",
              f"__len__ -> {ir.show_nl(ls.ret)}")
    init = prog.summarise(cls, "__init__")
    for f in (xf, yf):
        t = init.fields.get(f)
        empty = t is not None and ((t[0] == "new" and t[2] in ("list", "dict", "set") and not t[3]) or
                                   (t[0] == "res" and t[2].endswith("deque") and not t[3] and not t[4]) or
                                   (t[0] == "new" and t[2].endswith("deque") and not t[3]))
        run.check(empty, "OBS", f"{cls.name}.init.{f}", f"{init.path}:{init.fn.lineno}", f"{cls.name}.__init__",
                  f"init {f} = {ir.show_nl(t) if t else None}",
                  f"container {f} does not start empty: {ir.show_nl(t) if t else 'unassigned'}", f"{f} starts empty")
    x, y = update_params(prog, cls)
    s, ps = update_paths(prog, cls)
    run.analysed["paths"] += len(ps)
    st = ("field0", "store_targets")
    run.need("store_targets" in init.fields, f"{cls.name} has no store_targets field")
    size_field = "size" if "size" in init.fields else None
    arrivals = arrivals_counter(prog, cls, s, ps) if size_field else None
    bounded = size_field is not None
    if fifo and cls.name == "SequenceStorage":
        run.check(const_value(init.fields.get("size", ("undef",))) == 1, "COUNT", "SequenceStorage.size",
                  f"{init.path}:{init.fn.lineno}", "SequenceStorage.__init__", "size constant",
                  f"SequenceStorage must have capacity 1, has {ir.show_nl(init.fields.get('size'))}", "size = 1")
    problems = []

    def bad(rule, line, construct, msg):
        problems.append((rule, line, construct, msg))

    for p in ps:
        xs, ys = ops_on(p.events, xf), ops_on(p.events, yf)
        gtxt = " & ".join(ir.show_nl(g) for g in p.guards) or "always"
        line = (xs + ys)[0].ev.line if (xs + ys) else s.fn.lineno
        if any(o.kind in ("rebind", "nested-setitem") for o in xs + ys):
            bad("PARALLEL", line, "container rebound", f"[{gtxt}] container is rebound or a stored row is modified in place")
            continue
        # R1
        inserts = [o for o in xs if o.kind in GROW or o.kind == "setitem"]
        if len(inserts) > 1:
            bad("COUNT", inserts[1].ev.line, f"double insert {run.stmt_text(s.path, inserts[1].ev.line)}",
                f"[{gtxt}] the arriving instance is inserted {len(inserts)} times on one path")
        for o in inserts:
            if not is_value(o.value, x):
                bad("PARALLEL", o.ev.line, f"foreign value {run.stmt_text(s.path, o.ev.line)}",
                    f"[{gtxt}] value stored in the instance container is {ir.show_nl(o.value)}, not the arriving instance")
        # R2
        has_st, has_not_st = st in p.guards, ir.negate(st) in p.guards
        sig = lambda ops, v: [(o.kind, o.index, "V" if o.value is not None and is_value(o.value, v) else o.value)
                              for o in ops]
        if has_st:
            if sig(xs, x) != sig(ys, y):
                bad("PARALLEL", line, f"targets not mirrored: {_render(ys)} vs {_render(xs)}",
                    f"[{gtxt}] target operations {_render(ys)} do not mirror instance operations {_render(xs)}")
        else:
            if ys:
                bad("PARALLEL", ys[0].ev.line, f"unguarded target op {run.stmt_text(s.path, ys[0].ev.line)}",
                    f"[{gtxt}] target container is modified although store_targets is not known to be set")
            if xs and not has_not_st:
                bad("PARALLEL", line, f"store_targets not consulted for {_render(xs)}",
                    f"[{gtxt}] instance container changes ({_render(xs)}) on a path that never tests store_targets")
        # R3-R5
        g = net_growth(xs)
        if bounded:
            below = any(capacity_guard(l, xf, size_field, arrivals) for l in p.guards)
            full = any(full_guard(l, xf, size_field, arrivals) for l in p.guards)
            if g > 0 and not below:
                bad("COUNT", line, f"unguarded growth {_render(xs)}",
                    f"[{gtxt}] the container grows without a dominating capacity guard")
            if g < 0:
                bad("COUNT", line, f"shrinks {_render(xs)}", f"[{gtxt}] the container shrinks")
            if below and not (len(xs) == 1 and xs[0].kind == "append"):
                bad("COUNT", line, f"below capacity: {_render(xs) or 'no insertion'}",
                    f"[{gtxt}] below capacity every arrival must be appended exactly once; this path does {_render(xs) or 'nothing'}")
            if not below and not full and xs:
                bad("COUNT", line, f"no capacity test: {_render(xs)}", f"[{gtxt}] path modifies the container without testing the capacity")
            if not below and not full and not xs:
                # the arrival is dropped before the fill level is even looked at: below capacity it is lost
                bad("COUNT", line, "arrival dropped without a capacity test",
                    f"[{gtxt}] the call returns without storing the arrival and without having tested the capacity: while the "
                    f"storage is not full every arrival must be appended (count = min(seen, capacity))")
            if full and fifo:
                kinds = sorted(o.kind for o in xs)
                if kinds != ["append", "popleft"]:
                    bad("COUNT", line, f"fifo eviction {_render(xs) or 'none'}",
                        f"[{gtxt}] a full FIFO storage must evict the oldest (popleft) and append the newest on every path; found {_render(xs) or 'nothing'}")
            if full and not fifo:
                kinds = [o.kind for o in xs]
                if kinds not in ([], ["setitem"]):
                    bad("COUNT", line, f"reservoir replacement {_render(xs)}",
                        f"[{gtxt}] a full reservoir may only replace one slot in place; found {_render(xs)}")
        else:
            if not (len(xs) == 1 and xs[0].kind == "append"):
                bad("COUNT", line, f"unbounded storage: {_render(xs) or 'no insertion'}",
                    f"[{gtxt}] an unbounded storage must append every arrival exactly once in order; this path does {_render(xs) or 'nothing'}")
    seen = set()
    for rule, line, construct, msg in problems:
        if (rule, construct) in seen:
            continue
        seen.add((rule, construct))
        run.fail(rule, f"{cls.name}.update", f"{s.path}:{line}", fq, construct, msg)
    for rule in ("PARALLEL", "COUNT"):
        if not any(r == rule for r, *_ in problems):
            run.ok(rule, f"{cls.name}.update",
                   f"{len(ps)} feasible paths; instance ops mirrored by target ops under store_targets; "
                   f"capacity idiom: {'arrivals counter ' + arrivals if arrivals else ('len < size' if bounded else 'unbounded')}")


def _render(ops):
    return "[" + ", ".join(f"{o.kind}({ir.show_nl(o.index) if o.index is not None else ''})" for o in ops) + "]"


_G = "ixai/storage/geometric_reservoir_storage.py"
_U = "ixai/storage/uniform_reservoir_storage.py"
_I = "ixai/storage/interval_storage.py"
_B = "ixai/storage/batch_storage.py"
WITNESSES = [
    ("geometric: target written at another index", [(_G, "self._storage_y[rand_idx] = y", "self._storage_y[rand_idx - 1] = y")]),
    ("geometric: target not replaced", [(_G, "                if self.store_targets:\n                    self._storage_y[rand_idx] = y\n", "")]),
    ("geometric: <= in the length guard", [(_G, "if len(self._storage_x) < self.size:", "if len(self._storage_x) <= self.size:")]),
    ("interval: pop() for popleft()", [(_I, "self._storage_x.popleft()", "self._storage_x.pop()")]),
    ("interval: target eviction dropped", [(_I, "                self._storage_y.popleft()\n", "")]),
    ("batch: double append", [(_B, "        self._storage_x.append(x)\n", "        self._storage_x.append(x)\n        self._storage_x.append(x)\n")]),
    ("batch: target append outside the guard", [(_B, "        if self.store_targets:\n            self._storage_y.append(y)", "        self._storage_y.append(y)")]),
    ("uniform: target guard on y", [(_U, "                if self.store_targets:\n                    self._storage_y[rand_idx] = y", "                if self.store_targets and y is not None:\n                    self._storage_y[rand_idx] = y")]),
    ("uniform: fill phase off by one", [(_U, "if self.stored_samples <= self.size:", "if self.stored_samples < self.size:")]),
    ("batch: skip repeated object", [(_B, "        self._storage_x.append(x)\n", "        if self._storage_x and self._storage_x[-1] is x:\n            return\n        self._storage_x.append(x)\n")]),
    ("interval: get_data returns a stale snapshot", [(_I, "        return self._storage_x, self._storage_y\n", "        return self._cache_x, self._cache_y\n")]),
    ("sequence: capacity 2", [("ixai/storage/sequence_storage.py", "size=1", "size=2")]),
]
SILENT = [
    ("geometric: copy of the instance is stored", [(_G, "self._storage_x.append(x)", "self._storage_x.append(x.copy())")]),
    ("geometric: size compared the other way round", [(_G, "if len(self._storage_x) < self.size:", "if self.size > len(self._storage_x):")]),
    ("interval: append before popleft", [(_I, "            self._storage_x.popleft()\n            self._storage_x.append(x)\n", "            self._storage_x.append(x)\n            self._storage_x.popleft()\n"),
                                        (_I, "                self._storage_y.popleft()\n                self._storage_y.append(y)\n", "                self._storage_y.append(y)\n                self._storage_y.popleft()\n")]),
]
