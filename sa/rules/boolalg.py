"""Propositional reasoning over branch conditions by canonical literals and truth tables.

A condition term is built from atoms with not / and / or. Comparisons are canonicalised to the
positive operators {==, <, <=, is, in} plus a polarity (a > b is b < a; a != b is not (a == b)), so
every spelling of one test is one atom. Equivalence and implication of two conditions are decided by
enumerating the assignments of their (few) atoms; atoms are treated as independent propositions,
which is sound for *implication found true* only when no arithmetic relation between atoms is needed
(the rules below only compare conditions built from the same handful of tests).
"""
import itertools

from .. import ir

_POS = {"==": ("==", True), "!=": ("==", False), "<": ("<", True), ">=": ("<", False), "<=": ("<=", True),
        ">": ("<=", False), "is": ("is", True), "is not": ("is", False), "in": ("in", True), "not in": ("in", False)}


def _is_const(x):
    return isinstance(x, tuple) and x and x[0] == "const"


def _ordered(a, b):
    """Canonical operand order: constants last, otherwise by rendering."""
    if _is_const(a) != _is_const(b):
        return not _is_const(a)
    return repr(a) <= repr(b)


def literal(t):
    """(atom, polarity) of an atomic condition; every spelling of one test gives the same atom:
    a > b is b < a; a < b with operands out of canonical order is not (b <= a); a != b is not (a == b)."""
    if isinstance(t, tuple) and t:
        if t[0] == "not":
            a, p = literal(t[1])
            return a, not p
        if t[0] == "cmp" and t[1] in _POS:
            op, a, b = t[1], t[2], t[3]
            if op == ">":
                op, a, b = "<", b, a
            elif op == ">=":
                op, a, b = "<=", b, a
            if op in ("<", "<="):
                if _ordered(a, b):
                    return ("cmp", op, a, b), True
                return ("cmp", "<=" if op == "<" else "<", b, a), False
            pos, pol = _POS[op]
            if pos in ("==", "is") and not _ordered(a, b):
                a, b = b, a
            return ("cmp", pos, a, b), pol
    return t, True


def form(t):
    """Condition term -> nested ('lit', atom, pol) / ('and', [...]) / ('or', [...]) / ('not', f)."""
    if isinstance(t, tuple) and t:
        if t[0] == "and":
            return ("and", [form(x) for x in t[1]])
        if t[0] == "or":
            return ("or", [form(x) for x in t[1]])
        if t[0] == "not" and isinstance(t[1], tuple) and t[1] and t[1][0] in ("and", "or", "not"):
            return ("not", form(t[1]))
    a, p = literal(t)
    return ("lit", a, p)


def atoms(f, out=None):
    out = [] if out is None else out
    if f[0] == "lit":
        if f[1] not in out:
            out.append(f[1])
    elif f[0] == "not":
        atoms(f[1], out)
    else:
        for x in f[1]:
            atoms(x, out)
    return out


def evaluate(f, env):
    if f[0] == "lit":
        return env[f[1]] == f[2]
    if f[0] == "not":
        return not evaluate(f[1], env)
    if f[0] == "and":
        return all(evaluate(x, env) for x in f[1])
    return any(evaluate(x, env) for x in f[1])


def conj(lits):
    lits = list(lits)
    return ("and", tuple(lits)) if len(lits) != 1 else lits[0]


def _table(fa, fb):
    names = atoms(fa, atoms(fb, []))
    if len(names) > 12:
        raise ValueError("too many atoms")
    for vals in itertools.product((False, True), repeat=len(names)):
        yield dict(zip(names, vals))


def equivalent(a, b):
    fa, fb = form(a), form(b)
    return all(evaluate(fa, env) == evaluate(fb, env) for env in _table(fa, fb))


def implies(a, b):
    fa, fb = form(a), form(b)
    return all((not evaluate(fa, env)) or evaluate(fb, env) for env in _table(fa, fb))


def satisfiable(a):
    fa = form(a)
    return any(evaluate(fa, env) for env in _table(fa, fa))


def holds(guards, lit):
    """Does the conjunction of the guards entail the literal (propositionally)?"""
    if not guards:
        return False
    return implies(conj(guards), lit)


def excluded(guards, lit):
    """Does the conjunction of the guards entail the negation of the literal?"""
    if not guards:
        return False
    return implies(conj(guards), ir.negate(lit))
