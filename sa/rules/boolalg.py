"""Propositional reasoning over branch conditions by canonical literals and truth tables.

A condition term is built from atoms with not / and / or. Comparisons are canonicalised to the
positive operators {==, <, <=, is, in} plus a polarity (a > b is b < a; a != b is not (a == b)), so
every spelling of one test is one atom. Equivalence and implication of two conditions are decided by
enumerating the assignments of their (few) atoms; atoms are independent propositions except that
assignments which contradict the order of the reals are dropped when several atoms compare one term with
numeric constants (`n == 0 or n == 1` entails `n <= 1`).
"""
import itertools

from .. import ir

_POS = {"==": ("==", True), "!=": ("==", False), "<": ("<", True), ">=": ("<", False), "<=": ("<=", True),
        ">": ("<=", False), "is": ("is", True), "is not": ("is", False), "in": ("in", True), "not in": ("in", False)}


def _is_const(x):
    return isinstance(x, tuple) and x and x[0] == "const"


def _ordered(a, b):
    """Canonical operand order: constants last, otherwise by rendering."""
    if _is_const(a) != _is_const(b):
        return not _is_const(a)
    return repr(a) <= repr(b)


def literal(t):
    """(atom, polarity) of an atomic condition; every spelling of one test gives the same atom:
    a > b is b < a; a < b with operands out of canonical order is not (b <= a); a != b is not (a == b)."""
    if isinstance(t, tuple) and t:
        if t[0] == "not":
            a, p = literal(t[1])
            return a, not p
        if t[0] == "cmp" and t[1] in _POS:
            op, a, b = t[1], t[2], t[3]
            if op == ">":
                op, a, b = "<", b, a
            elif op == ">=":
                op, a, b = "<=", b, a
            if op in ("<", "<="):
                if _ordered(a, b):
                    return ("cmp", op, a, b), True
                return ("cmp", "<=" if op == "<" else "<", b, a), False
            pos, pol = _POS[op]
            if pos in ("==", "is") and not _ordered(a, b):
                a, b = b, a
            return ("cmp", pos, a, b), pol
    return t, True


def form(t):
    """Condition term -> nested ('lit', atom, pol) / ('and', [...]) / ('or', [...]) / ('not', f)."""
    if isinstance(t, tuple) and t:
        if t[0] == "and":
            return ("and", [form(x) for x in t[1]])
        if t[0] == "or":
            return ("or", [form(x) for x in t[1]])
        if t[0] == "not" and isinstance(t[1], tuple) and t[1] and t[1][0] in ("and", "or", "not"):
            return ("not", form(t[1]))
    a, p = literal(t)
    return ("lit", a, p)


def atoms(f, out=None):
    out = [] if out is None else out
    if f[0] == "lit":
        if f[1] not in out:
            out.append(f[1])
    elif f[0] == "not":
        atoms(f[1], out)
    else:
        for x in f[1]:
            atoms(x, out)
    return out


def evaluate(f, env):
    if f[0] == "lit":
        return env[f[1]] == f[2]
    if f[0] == "not":
        return not evaluate(f[1], env)
    if f[0] == "and":
        return all(evaluate(x, env) for x in f[1])
    return any(evaluate(x, env) for x in f[1])


def conj(lits):
    lits = list(lits)
    return ("and", tuple(lits)) if len(lits) != 1 else lits[0]


def _num(c):
    return isinstance(c, tuple) and len(c) == 2 and c[0] == "const" and isinstance(c[1], (int, float)) and \
        not isinstance(c[1], bool) and c[1] == c[1]


def _consistent(env):
    """Can the atoms that compare one term with numeric constants take these truth values together?
    (order reasoning over the reals: `n == 0` true and `n <= 1` false is impossible)"""
    groups = {}
    for atom, val in env.items():
        if isinstance(atom, tuple) and len(atom) == 4 and atom[0] == "cmp" and atom[1] in ("==", "<", "<=") and _num(atom[3]) \
                and not _num(atom[2]):
            groups.setdefault(atom[2], []).append((atom[1], atom[3][1], val))
    for cons in groups.values():
        if len(cons) < 2:
            continue
        lo, lo_strict, hi, hi_strict = float("-inf"), False, float("inf"), False
        eqs, nes = set(), set()
        for op, c, val in cons:
            if op == "==":
                (eqs if val else nes).add(c)
                continue
            if (op == "<" and val) or (op == "<=" and val):             # t < c  /  t <= c
                strict = op == "<"
                if c < hi or (c == hi and strict):
                    hi, hi_strict = c, strict
            else:                                                        # t >= c  /  t > c
                strict = op == "<="
                if c > lo or (c == lo and strict):
                    lo, lo_strict = c, strict
        if len(eqs) > 1:
            return False
        if eqs:
            v = next(iter(eqs))
            if v in nes or v < lo or v > hi or (v == lo and lo_strict) or (v == hi and hi_strict):
                return False
            continue
        if lo > hi or (lo == hi and (lo_strict or hi_strict or lo in nes)):
            return False
    return True


def _table(fa, fb):
    names = atoms(fa, atoms(fb, []))
    if len(names) > 12:
        raise ValueError("too many atoms")
    for vals in itertools.product((False, True), repeat=len(names)):
        env = dict(zip(names, vals))
        if _consistent(env):
            yield env


def equivalent(a, b):
    fa, fb = form(a), form(b)
    return all(evaluate(fa, env) == evaluate(fb, env) for env in _table(fa, fb))


def implies(a, b):
    fa, fb = form(a), form(b)
    return all((not evaluate(fa, env)) or evaluate(fb, env) for env in _table(fa, fb))


def satisfiable(a):
    fa = form(a)
    return any(evaluate(fa, env) for env in _table(fa, fa))


def holds(guards, lit):
    """Does the conjunction of the guards entail the literal (propositionally)?"""
    if not guards:
        return False
    return implies(conj(guards), lit)


def excluded(guards, lit):
    """Does the conjunction of the guards entail the negation of the literal?"""
    if not guards:
        return False
    return implies(conj(guards), ir.negate(lit))
