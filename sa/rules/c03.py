"""C03 -- incremental SAGE credits each feature its loss reduction along the random chain.

Clauses beyond C01:
 KEY      the credit is stored under the feature being revealed (loop target = removed element = dict key);
 COMPL    the imputer receives the complement of the revealed coalition (the set starts full and shrinks);
 NEW      loss after revealing = loss(y_i, MeanOut(impute(S, x_i, n))): the loss of the *mean* prediction, with
          MeanOut = per-label sum of output.get(label, 0) / number of outputs (missing label counts 0);
 C0       loss before the first feature = loss(y_i, normalised running mean prediction), the prediction tracker
          being a fresh deep copy updated with model(x_i) first; marginal_prediction and the tracker are committed
          from exactly these values;
 VAR      variance update = (credit_f - importance_values[f])**2 read after the importance update;
 OFFSET   marginal/model loss getters add the same offset (1 iff loss_bigger_is_better);
 N        n = per-call override or the configured n_inner_samples (never written back).
"""
from .. import ir
from ..paths import walk
from .common import dict_build
from .explcore import check_guard_and_counter, meanout_ok, meanout_arg, same, impute_args, MEANOUT
from .sagecore import Sage, telescope, chain_end, getters, chain_start
from .sagelib import is_call_to, FEATURE_NAMES

META = {
    "explanation": "FORMULA/SAME/ORDER obligations on the value graph of IncrementalSage.explain_one: provenance of each "
                   "chain loss (loss of the mean of the imputer's predictions), summary of _get_mean_model_output "
                   "against its reference, chain start from the normalised prediction tracker (fresh deepcopy, updated "
                   "before being read, then committed), variance update order, getter offsets, n override.",
    "trusted_base": ["trackers: C10/C12", "imputers: C06", "deterministic model and loss"],
    "assumptions": [],
}
META["explanation"] += ' Round 5: every chain link books its credit; DEP-C13 PAIR (the loss is the value of the single pair). HAZARD: constructs that do not mean what they look like, met in the analysed code (defaults evaluated once, class-level containers changed through self, dict.fromkeys with a shared mutable value, late-binding lambdas, truth value of objects that define __len__) are reported by every check.'
MIN_INSTANCES = {"KEY": 1, "COMPL": 2, "NEW": 2, "C0": 3, "VAR": 2, "OFFSET": 3, "N": 1}


def check(run):
    sg = Sage(run, run.prog)
    s, fq = sg.s, sg.fq
    res = telescope(sg, "KEY")
    iev = chain_end(sg, "COMPL")
    # ---- NEW -------------------------------------------------------------------------------------
    meanout_ok(run, run.prog, "NEW", "meanout")
    if sg.carried is not None and iev is not None:
        nxt = sg.carried[2]
        ok = nxt[0] == "res" and nxt[2] == f"self.{sg.lf}" and len(nxt[3]) == 2 and not nxt[4] and nxt[3][0] == sg.y
        why = ""
        if ok:
            outs, why = meanout_arg(nxt[3][1], s.events)
            ok = outs == iev.res
            if outs is not None and not ok:
                why = f"the mean is taken over {ir.show_nl(outs)[:100]}, not over the imputer's predictions"
        if not ok and not why:
            if any(t[0] == "fn" and t[1] == "mean" for t in ir.subterms(nxt)):
                why = "losses of the individual predictions are averaged instead of taking the loss of the mean prediction"
            else:
                why = f"found {ir.show_nl(nxt)[:180]}"
        run.check(ok, "NEW", "chain.loss", sg.where(sg.L.line), fq, f"loss after revealing: {why or 'ok'}",
                  f"the loss after revealing a feature must be loss(y_i, mean output of the imputer's n predictions): {why}",
                  "new = loss(y_i, _get_mean_model_output(impute(S, x_i, n)))")
    # ---- C0 --------------------------------------------------------------------------------------
    if sg.carried is not None:
        init = sg.carried[1]
        # the loss of the empty coalition that the chain starts from is the value reported as marginal loss
        chain_start(sg, "C0", init)
        mpts = [f for f in sg.fields.get("TRACKER", []) if f not in (sg.IT, sg.VT, sg.MLT, sg.MoLT)]
        if len(mpts) > 1:
            # further tracker-valued fields (a template the others are copied from, ...): the prediction tracker is the
            # one this method works on
            used = {t[3][0][1] for ev, _ in walk(s.events) for v in (getattr(ev, "value", None), getattr(ev, "res", None))
                    if v is not None for t in ir.subterms(v)
                    if t[0] == "new" and t[2] == "deepcopy" and len(t[3]) == 1 and t[3][0][0] == "field0"}
            used |= {ev.field for ev, _ in walk(s.events) if isinstance(ev, ir.Store)}
            mpts = [f for f in mpts if f in used] or mpts
        run.need(len(mpts) == 1, f"marginal prediction tracker not identified: {mpts}")
        MPT = mpts[0]
        okc = init[0] == "res" and init[2] == f"self.{sg.lf}" and len(init[3]) == 2 and init[3][0] == sg.y and not init[4]
        mp = init[3][1] if okc else None
        norm = mp is not None and mp[0] == "res" and mp[2] == ".get_normalized" and mp[3]
        R = mp[3][0] if norm else None
        fresh = R is not None and R[0] == "new" and R[2] == "deepcopy" and R[3] == (("field0", MPT),)
        why = ""
        if not okc:
            why = f"the chain starts at {ir.show_nl(init)[:140]}, not at a loss of the marginal prediction"
        elif not norm:
            raw = mp is not None and mp[0] == "res" and mp[2].endswith(".get")
            why = "the marginal prediction is the raw (un-normalised) tracker value" if raw else \
                f"the marginal prediction is {ir.show_nl(mp)[:140]}"
        elif not fresh:
            why = f"the prediction tracker read is {ir.show_nl(R)[:120]}, not a fresh deep copy of the running tracker"
        run.check(okc and norm and fresh, "C0", "start", sg.where(s.fn.lineno), fq, f"chain start: {why or 'ok'}",
                  f"the loss before the first feature must be loss(y_i, normalised running mean prediction): {why}",
                  "c0 = loss(y_i, deepcopy(prediction tracker).update(model(x_i)).get_normalized())")
        if okc and norm and fresh:
            ups = [ev for ev, _ in walk(s.events) if isinstance(ev, ir.Mut) and ev.recv == R and ev.method == "update"]
            getn = next((ev for ev, _ in walk(s.events) if isinstance(ev, ir.Call) and ev.res == mp), None)
            arg_ok = len(ups) == 1 and len(ups[0].args) == 1 and ups[0].args[0][0] == "res" and \
                ups[0].args[0][2] == f"self.{sg.mf}" and ups[0].args[0][3] == (sg.x,)
            order_ok = arg_ok and getn is not None and sg.index[id(ups[0])] < sg.index[id(getn)]
            run.check(arg_ok and order_ok, "C0", "update-before-read", sg.where(ups[0].line if ups else s.fn.lineno), fq,
                      f"{len(ups)} updates of the provisional prediction tracker",
                      "the prediction tracker copy must be updated exactly once with model(x_i) before it is read",
                      "copy.update(model(x_i)) precedes get_normalized()")
            st_mp = [ev for ev, _ in walk(s.events) if isinstance(ev, ir.Store) and ev.field == "marginal_prediction"]
            st_tr = [ev for ev, _ in walk(s.events) if isinstance(ev, ir.Store) and ev.field == MPT]
            run.check(len(st_mp) == 1 and st_mp[0].value == mp and len(st_tr) == 1 and st_tr[0].value == R, "C0", "commit",
                      sg.where(st_mp[0].line if st_mp else s.fn.lineno), fq, "marginal prediction commit",
                      "marginal_prediction and the prediction tracker must be committed from exactly the values the chain "
                      "start was computed from", "self.marginal_prediction / tracker committed from the same terms")
    # ---- VAR -------------------------------------------------------------------------------------
    upd, vup = sg.updates(sg.IT), sg.updates(sg.VT)
    if len(upd) == 1 and len(vup) == 1:
        uev, vev = upd[0][0], vup[0][0]
        D = uev.args[0]
        V = vev.args[0] if vev.args else None
        okv = V is not None and V[0] == "comp" and V[1] == "dict" and V[3] == FEATURE_NAMES and V[4] == ("elem", V[2]) and not V[6]
        good = after = False
        if okv:
            el = ("elem", V[2])
            gets = [t for t in ir.subterms(V[5]) if t[0] == "res" and t[2] == f"self.{sg.IT}.get"]
            if gets:
                good = same(V[5], ("op", "**", ("op", "-", ("sub", D, el), ("sub", gets[0], el)), ("const", 2)))
                gcall = next((ev for ev, _ in walk(s.events) if isinstance(ev, ir.Call) and ev.res == gets[0]), None)
                after = gcall is not None and sg.index[id(gcall)] > sg.index[id(uev)]
        run.check(okv and good, "VAR", "formula", sg.where(vev.line), fq, f"variance update {ir.show_nl(V)[:140] if V else None}",
                  f"variance contribution must be (credit_f - importance_values[f])**2 for every feature; found "
                  f"{ir.show_nl(V)[:200] if V else None}", "variances[f] = (credit[f] - importance_values[f])**2")
        run.check(after, "VAR", "after-update", sg.where(vev.line), fq, "importance read before its update",
                  "the squared deviation must use the importance value after this observation's update",
                  "importance_values read after the importance update")
    else:
        run.fail("VAR", "formula", sg.where(s.fn.lineno), fq, f"{len(upd)} importance / {len(vup)} variance updates",
                 "importance and variance trackers must each be updated exactly once")
    getters(sg, "OFFSET")
    from .explcore import tracker_operator
    tracker_operator(run, run.prog, sg.cls, "OFFSET", "sage.operator")

    from .c06 import depends_on
    depends_on(run, "C10")
    depends_on(run, "C12", {"TYPESTATE", "NOMUT", "FORMULA", "ZERODIV", "COPY"})
    depends_on(run, "C06", {"MERGE", "KEYS", "COUNT", "VALUE", "COPY"})
    depends_on(run, "C15", {"DEFAULTS", "CTOR"}, only=lambda rule, inst: inst.startswith("IncrementalSage"))
    depends_on(run, "C13", {"PAIR"})            # a river metric used as loss reports the value of the single pair (update / get / revert)
    # ---- N ---------------------------------------------------------------------------------------
    sticky = [ev for ev, _ in walk(s.events) if isinstance(ev, ir.Store) and ev.field == "n_inner_samples"]
    run.check(not sticky, "N", "override", sg.where(sticky[0].line if sticky else s.fn.lineno), fq,
              "explain_one overwrites self.n_inner_samples",
              "a per-call n_inner_samples override is written to the configured attribute and sticks for later calls",
              "per-call n is not written back")


_I = "ixai/explainer/sage/incremental.py"
_B = "ixai/explainer/base.py"
WITNESSES = [
    ("credit stored under the first chain element", [(_I, "marginal_contributions[feature] = marginal_contribution", "marginal_contributions[permutation_chain[0]] = marginal_contribution")]),
    ("imputer given the revealed set", [(_I, "            features_not_in_s = set(self.feature_names)\n", "            features_not_in_s = set(self.feature_names)\n            features_in_s = set()\n"),
                                        (_I, "                features_not_in_s.remove(feature)\n", "                features_not_in_s.remove(feature)\n                features_in_s.add(feature)\n"),
                                        (_I, "feature_subset=features_not_in_s,", "feature_subset=features_in_s,")]),
    ("mean of the losses of the predictions", [(_I, "                y = _get_mean_model_output(predictions)\n                feature_loss = self._loss_function(y_i, y)\n", "                feature_loss = np.mean([self._loss_function(y_i, p) for p in predictions])\n")]),
    ("missing label counted as 1", [(_B, "output.get(label, 0)", "output.get(label, 1)")]),
    ("dividing by the number of labels", [(_B, "/ len(model_outputs)\n", "/ len(all_labels)\n")]),
    ("divide by outputs that contain the label", [(_B, "sum([output.get(label, 0) for output in model_outputs]) / len(model_outputs)", "sum([output.get(label, 0) for output in model_outputs]) / sum([1 for output in model_outputs if label in output])")]),
    ("raw tracker as marginal prediction", [(_I, "marginal_prediction = marginal_prediction_tracker.get_normalized()", "marginal_prediction = marginal_prediction_tracker.get()")]),
    ("prediction tracker read before its update", [(_I, "            marginal_prediction_tracker.update(y_i_pred)\n            marginal_prediction = marginal_prediction_tracker.get_normalized()\n", "            marginal_prediction = marginal_prediction_tracker.get_normalized()\n            marginal_prediction_tracker.update(y_i_pred)\n")]),
    ("variance before the importance update", [(_I, "            self._importance_trackers.update(marginal_contributions)\n            variances = {\n                feature: (marginal_contributions[feature] - self.importance_values[feature])**2\n                for feature in self.feature_names\n            }\n",
                                                "            variances = {\n                feature: (marginal_contributions[feature] - self.importance_values[feature])**2\n                for feature in self.feature_names\n            }\n            self._importance_trackers.update(marginal_contributions)\n")]),
    ("offset of 2", [(_I, "self._loss_direction = 1. if loss_bigger_is_better else 0.", "self._loss_direction = 2. if loss_bigger_is_better else 0.")]),
    ("sticky per-call n", [(_I, "            if n_inner_samples is None:\n                n_inner_samples = self.n_inner_samples\n", "            if n_inner_samples is not None:\n                self.n_inner_samples = n_inner_samples\n            n_inner_samples = self.n_inner_samples\n")]),
    ("marginal prediction committed from the old tracker", [(_I, "            self.marginal_prediction = marginal_prediction\n", "            self.marginal_prediction = self._marginal_prediction_tracker.get_normalized()\n"),
                                                             (_I, "            self._marginal_prediction_tracker = marginal_prediction_tracker\n            self.marginal_prediction", "            self.marginal_prediction")]),
]
SILENT = [
    ("sum/len inside the mean output", [(_B, "sum([output.get(label, 0) for output in model_outputs]) / len(model_outputs)", "sum(output.get(label, 0) for output in model_outputs) / len(model_outputs)")]),
]
