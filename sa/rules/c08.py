"""C08 -- UniformReservoirStorage is an instance of Algorithm L (Li 1994) (rules FORMULA/SAME/DRAW).

Schema (k = size, arrivals = number of observations including the current one):
  init   W0 = exp(log U / k);  next0 = k + floor(log U' / log(1 - W0)) + 1
  update accept <=> next == arrivals (only when full); on accept
         slot ~ uniform integer on [0, k);  W' = W * exp(log U'' / k);
         next' = next + floor(log U''' / log(1 - W_exit)) + 1  with W_exit the weight kept at exit
  all U are distinct fresh U[0,1) draws; W and next change nowhere else.
Algorithm R (j ~ U{0..arrivals-1}; if j < k: slot j) is accepted as an alternative schema.
The uniformity of the sample is the trusted theorem of the schema.
"""
from .. import ir
from ..paths import walk
from ..poly import Normaliser, OutOfDomain
from ..report import AnalysisError
from .storagelib import (containers, update_params, ops_on, capacity_guard, full_guard, arrivals_counter,
                         update_paths)
from .drawlib import is_uniform01, draws_in, exact_range, is_draw, uniform_int

META = {
    "explanation": "Schema conformance: the constructor and every path of UniformReservoirStorage.update are "
                   "summarised; weight, skip counter, acceptance test and slot draw are compared term-by-term "
                   "(exact rational-function normal form over log/exp/floor atoms) with Algorithm L, including "
                   "SAME(weight used for the next skip, weight kept at exit) and pairwise distinct fresh draws.",
    "trusted_base": ["Algorithm L / Algorithm R produce uniform k-subsets (Li 1994, Vitter 1985)",
                     "random.random is U[0,1), random.randrange(n) is uniform on 0..n-1"],
    "assumptions": ["float corner cases of log(0) are out of scope"],
}
META["explanation"] += ' Also COPY and the other methods that assign part of (arrival count, W, next accepted arrival).'
META["explanation"] += ' Round 5: DEP-C06 NOMUT and DEP-C15 DEFAULTS storage (nobody else changes what the reservoir holds); comparisons of a drawn position with a length are not decided. HAZARD: constructs that do not mean what they look like, met in the analysed code (defaults evaluated once, class-level containers changed through self, dict.fromkeys with a shared mutable value, late-binding lambdas, truth value of objects that define __len__) are reported by every check.'
MIN_INSTANCES = {"FORMULA": 4, "DRAW": 1, "SAME": 1}

CLS = "UniformReservoirStorage"


def op(o, a, b):
    return ("op", o, a, b)


def fn(name, *a):
    return ("fn", name, tuple(a))


def _same(a, b):
    try:
        return Normaliser().same(a, b)
    except OutOfDomain as e:
        raise AnalysisError(f"C08: term outside the normaliser domain: {e}")


def _weight_form(t, k):
    """U if t == exp(log U / k) for a fresh uniform U, else None."""
    for u in draws_in(t):
        if is_uniform01(u) and _same(t, fn("exp", op("/", fn("log", u), k))):
            return u
    return None


def _skip_form(t, base, w):
    """U if t == base + floor(log U / log(1 - w)) + 1."""
    for u in draws_in(t):
        if is_uniform01(u) and u not in draws_in(w):
            ref = op("+", op("+", base, fn("floor", op("/", fn("log", u), fn("log", op("-", ("const", 1), w))))),
                     ("const", 1))
            if _same(t, ref):
                return u
    return None


def check(run):
    from .c06 import depends_on
    # what the reservoir holds is changed by its own update only: the explainer feeds the caller's storage object itself,
    # the imputer only reads what get_data hands out
    depends_on(run, "C15", {"DEFAULTS"}, only=lambda rule, inst: inst.endswith(".storage"))
    depends_on(run, "C06", {"NOMUT"})
    _check_own(run)
    from .copylib import copy_protocol
    copy_protocol(run, run.prog, run.prog.find_class(CLS))    # a copied reservoir keeps its weight, skip target and arrival count


def _check_own(run):
    prog = run.prog
    cls = prog.find_class(CLS)
    run.need(cls is not None, f"anchor class {CLS} vanished")
    init = prog.summarise(cls, "__init__")
    s, ps = update_paths(prog, cls)
    run.analysed_fn(f"{CLS}.__init__")
    run.analysed_fn(f"{CLS}.update")
    run.analysed["paths"] += len(ps)
    gd, conts = containers(prog, cls)
    run.need(all(c[0] == "field0" for c in conts), "get_data does not expose the containers (see C07)")
    xf = conts[0][1]
    x, y = update_params(prog, cls)
    others = []
    arrivals = arrivals_counter(prog, cls, s, ps, other_writers=others)
    k_init = init.fields.get("size")
    run.need(k_init is not None, "no size field")
    fq = f"{CLS}.update"

    # ---- which schema? ---------------------------------------------------------------------
    wf = cf = None
    u0 = None
    for f, t in init.fields.items():
        u = _weight_form(t, k_init) if draws_in(t) else None
        if u is not None:
            wf, u0 = f, u
    if wf is None:
        if _algorithm_r(run, prog, cls, s, ps, xf, arrivals):
            return
        drawn = [f for f, t in init.fields.items() if draws_in(t)]
        if drawn:
            f = drawn[0]
            run.fail("FORMULA", "L.W0", f"{init.path}:{init.fn.lineno}", f"{CLS}.__init__",
                     f"W0: self.{f} = {ir.show_nl(init.fields[f])}",
                     f"initial weight must be exp(log U / size) for a fresh uniform U; found "
                     f"self.{f} = {ir.show_nl(init.fields[f])}")
            return
        raise AnalysisError("UniformReservoirStorage matches neither the Algorithm L nor the Algorithm R schema")
    run.ok("FORMULA", "L.W0", f"self.{wf} = exp(log U / size)")
    for f, t in init.fields.items():
        if f != wf and draws_in(t):
            u = _skip_form(t, k_init, init.fields[wf])
            if u is not None and u != u0:
                cf = f
            else:
                run.fail("FORMULA", "L.next0", f"{init.path}:{init.fn.lineno}", f"{CLS}.__init__",
                         f"next0: self.{f} = {ir.show_nl(t)}",
                         f"initial skip target must be size + floor(log U' / log(1 - W0)) + 1 with a second fresh "
                         f"draw; found self.{f} = {ir.show_nl(t)}")
                return
    run.need(cf is not None, "Algorithm L: no skip-counter field found in the constructor")
    run.ok("FORMULA", "L.next0", f"self.{cf} = size + floor(log U' / log(1 - W0)) + 1, U' distinct from U")
    if arrivals is None:
        from .storagelib import partial_counter
        pc = partial_counter(prog, cls, s, ps)
        if pc is not None and any(("field0", pc[0]) in ir.subterms(g) for p in ps for g in p.guards):
            gtxt = " & ".join(ir.show_nl(g) for g in pc[1]) or "some path"
            run.fail("FORMULA", "L.count", f"{s.path}:{s.fn.lineno}", fq, f"self.{pc[0]} not advanced under [{gtxt}]",
                     f"the skip target is an absolute arrival index, so every arrival must advance the arrival counter; "
                     f"self.{pc[0]} is not incremented on the path [{gtxt}] (acceptances then happen late)")
            return
    run.need(arrivals is not None, "no arrivals counter (field incremented exactly once at the top of every path)")
    # ---- other methods that touch the sampler state -------------------------------------------------------
    from .copylib import HOOKS
    state = [arrivals, wf, cf]
    seen_m = set()
    for c_, mname, fn_ in others:
        if mname in seen_m or mname in HOOKS:
            continue
        seen_m.add(mname)
        try:
            sm = prog.summarise(cls, mname)
        except ir.Unsupported as e:
            raise AnalysisError(f"{CLS}.{mname} writes the arrival count and is not followed: {e}")
        written = [f for f in state if sm.fields.get(f, ("field0", f)) != ("field0", f)]
        if len(written) < len(state):
            missing = [f for f in state if f not in written]
            run.fail("FORMULA", f"L.state.{mname}", f"{sm.path}:{sm.fn.lineno}", f"{CLS}.{mname}",
                     f"{mname} assigns {written} and leaves {missing}",
                     f"Algorithm L's state is the arrival count, the weight W and the next accepted arrival; {CLS}.{mname} assigns "
                     f"{written} but leaves {missing} as they were: the skip target then refers to another count than the one "
                     f"update compares it with (after a restart of the count the equality test `next == arrivals` is not met "
                     f"again for a long time, or never)")
        else:
            raise AnalysisError(f"{CLS}.{mname} advances the Algorithm L state outside update(); whether it reproduces the "
                                f"per-arrival law is not decided")
    a1 = op("+", ("field0", arrivals), ("const", 1))
    k = ("field0", "size")
    c0, w0 = ("field0", cf), ("field0", wf)
    accept_lits = {("cmp", "==", c0, a1), ("cmp", "==", a1, c0), ("cmp", "<=", c0, a1), ("cmp", ">=", a1, c0)}

    n_accept = 0
    for p in ps:
        below = any(capacity_guard(l, xf, "size", arrivals) for l in p.guards)
        full = any(full_guard(l, xf, "size", arrivals) for l in p.guards)
        xs = ops_on(p.events, xf)
        w_exit, c_exit, w_line, c_line = w0, c0, None, None
        for ev in p.events:
            if isinstance(ev, ir.Store) and ev.field == wf:
                w_exit, w_line = ev.value, ev.line
            if isinstance(ev, ir.Store) and ev.field == cf:
                c_exit, c_line = ev.value, ev.line
        accepted = any(l in accept_lits for l in p.guards)
        replaces = [o for o in xs if o.kind == "setitem"]
        gtxt = " & ".join(ir.show_nl(g) for g in p.guards) or "always"
        if not (full and accepted):
            # state of the sampler must not move, nothing may be replaced
            if w_line or c_line:
                line = w_line or c_line
                run.fail("FORMULA", "L.idle", f"{s.path}:{line}", fq, f"idle path writes sampler state: {run.stmt_text(s.path, line)}",
                         f"[{gtxt}] weight / skip counter change on a path that does not accept an observation")
            if replaces:
                cond = [l for l in p.guards if c0 in ir.subterms(l)]
                run.fail("FORMULA", "L.accept", f"{s.path}:{replaces[0].ev.line}", fq,
                         f"accept test {ir.show_nl(cond[0]) if cond else gtxt}",
                         f"[{gtxt}] a stored observation is replaced although the acceptance test "
                         f"`skip target == arrivals` does not hold on this path")
            continue
        n_accept += 1
        # DRAW: slot
        if len(replaces) != 1:
            run.fail("DRAW", "L.slot", f"{s.path}:{s.fn.lineno}", fq, f"accept path replaces {len(replaces)} slots",
                     f"[{gtxt}] the accept path must replace exactly one slot")
            continue
        verdict, info = exact_range(replaces[0].index, k)
        if verdict == "unknown":
            raise AnalysisError(f"slot index uses an RNG primitive outside the table: {ir.show_nl(replaces[0].index)}")
        slot_draw = info if verdict is True else None
        run.check(verdict is True, "DRAW", "L.slot", f"{s.path}:{replaces[0].ev.line}", fq,
                  f"slot index {ir.show_nl(replaces[0].index)}",
                  f"replacement slot must be uniform on [0, size): {info if verdict is not True else ''}",
                  f"slot = {ir.show_nl(replaces[0].index)} uniform on [0, size)")
        # FORMULA: W'
        u2 = None
        for u in draws_in(w_exit):
            if is_uniform01(u) and _same(w_exit, op("*", w0, fn("exp", op("/", fn("log", u), k)))):
                u2 = u
        run.check(u2 is not None, "FORMULA", "L.W'", f"{s.path}:{w_line or s.fn.lineno}", fq,
                  f"W' = {ir.show_nl(w_exit)}",
                  f"[{gtxt}] after an acceptance the weight must become W * exp(log U / size); it is {ir.show_nl(w_exit)}",
                  "W' = W * exp(log U'' / size)")
        # SAME: the weight that draws the next skip is the weight kept
        u3 = _skip_form(c_exit, c0, w_exit)
        if u3 is None:
            extra = sorted(t[1] for t in ir.subterms(c_exit) if t[0] == "field0" and "." in t[1])      # collaborator state
            if extra:
                raise AnalysisError(f"{fq}: the next skip target is computed from state outside the Algorithm L schema "
                                    f"(self.{extra[0]}); whether that state mirrors the skip counter is not decided")
            stale = _skip_form(c_exit, c0, w0) if w_exit != w0 else None
            msg = f"[{gtxt}] next skip target must be next + floor(log U / log(1 - W_exit)) + 1 with the weight kept " \
                  f"at exit"
            if stale is not None:
                msg += " -- it is drawn from the stale weight (before the weight is shrunk)"
            run.fail("SAME", "L.next'", f"{s.path}:{c_line or s.fn.lineno}", fq, f"next' = {ir.show_nl(c_exit)}",
                     msg + f"; found {ir.show_nl(c_exit)}")
        else:
            run.ok("SAME", "L.next'", "next' = next + floor(log U''' / log(1 - W_exit)) + 1 with W_exit the stored weight")
        # distinct fresh draws
        used = [d for d in (slot_draw, u2, u3) if d is not None]
        distinct = len(set(used)) == len(used)
        on_path = [ev.res for ev in p.events if isinstance(ev, ir.Draw)]
        fresh = all(d in on_path for d in used)
        run.check(distinct and fresh, "DRAW", "L.fresh", f"{s.path}:{s.fn.lineno}", fq,
                  "draws reused: " + ", ".join(ir.show_nl(d) for d in used),
                  f"[{gtxt}] slot, weight and skip must use three distinct draws made on this path",
                  "three distinct fresh draws on the accept path")
    run.check(n_accept >= 1, "FORMULA", "L.accept", f"{s.path}:{s.fn.lineno}", fq, "no accept path",
              "no path of update accepts an observation under `skip target == arrivals` at capacity",
              f"{n_accept} accept path(s) guarded by next == arrivals")
    run.check(u0 is not None, "DRAW", "L.init-fresh", f"{init.path}:{init.fn.lineno}", f"{CLS}.__init__", "init draws",
              "constructor draws are not fresh", "U, U' distinct in the constructor")


def _algorithm_r(run, prog, cls, s, ps, xf, arrivals):
    """Accept the classic Algorithm R: j ~ U{0..arrivals-1}; if j < size: X[j] = x."""
    if arrivals is None:
        return False
    a1 = ("op", "+", ("field0", arrivals), ("const", 1))
    k = ("field0", "size")
    ok_paths = 0
    for p in ps:
        full = any(full_guard(l, xf, "size", arrivals) for l in p.guards)
        xs = [o for o in ops_on(p.events, xf) if o.kind == "setitem"]
        if not full or not xs:
            continue
        j = xs[0].index
        verdict, info = exact_range(j, a1)
        if verdict is not True:
            return False
        if ("cmp", "<", j, k) not in p.guards and ("cmp", ">", k, j) not in p.guards:
            return False
        ok_paths += 1
    if ok_paths:
        run.ok("FORMULA", "R.schema", "Algorithm R: j uniform on [0, arrivals), replace slot j iff j < size")
        for r in ("FORMULA", "DRAW", "SAME"):
            for i in range(4):
                run.ok(r, f"R.{i}", "Algorithm R schema instance")
        return True
    return False


_U = "ixai/storage/uniform_reservoir_storage.py"
_SKIP = "                self._algo_l_counter += (np.floor(\n                    np.log(random.random()) / np.log(1 - self._algo_wt)) + 1)\n"
WITNESSES = [
    ("skip drawn from the stale weight (pre-repair order)", [
        (_U, _SKIP, ""),
        (_U, "                rand_idx = random.randrange(self.size)\n", _SKIP + "                rand_idx = random.randrange(self.size)\n")]),
    ("missing + 1 in the skip", [(_U, "np.log(1 - self._algo_wt)) + 1)\n", "np.log(1 - self._algo_wt)))\n")]),
    ("weight exponent 1/(k+1)", [(_U, "self._algo_wt *= np.exp(np.log(random.random()) / self.size)", "self._algo_wt *= np.exp(np.log(random.random()) / (self.size + 1))")]),
    ("log(1 + W)", [(_U, "np.log(random.random()) / np.log(1 - self._algo_wt)) + 1)\n", "np.log(random.random()) / np.log(1 + self._algo_wt)) + 1)\n")]),
    ("slot randrange(size - 1)", [(_U, "rand_idx = random.randrange(self.size)", "rand_idx = random.randrange(self.size - 1)")]),
    ("slot round(U * (size - 1))", [(_U, "rand_idx = random.randrange(self.size)", "rand_idx = round(random.random() * (self.size - 1))")]),
    ("accept on >=", [(_U, "if self._algo_l_counter == self.stored_samples:", "if self._algo_l_counter >= self.stored_samples:")]),
    ("one draw reused in the constructor", [
        (_U, "        self._algo_wt = np.exp(np.log(random.random()) / self.size)\n", "        log_u = np.log(random.random())\n        self._algo_wt = np.exp(log_u / self.size)\n"),
        (_U, "self.size + (np.floor(np.log(random.random()) / np.log(1 - self._algo_wt)) + 1)", "self.size + (np.floor(log_u / np.log(1 - self._algo_wt)) + 1)")]),
    ("weight not shrunk", [(_U, "                self._algo_wt *= np.exp(np.log(random.random()) / self.size)\n", "")]),
]
SILENT = [
    ("power form of the weight update", [(_U, "self._algo_wt *= np.exp(np.log(random.random()) / self.size)", "self._algo_wt = self._algo_wt * random.random() ** (1 / self.size)")]),
    ("math instead of numpy", [(_U, "import numpy as np", "import math as np")]),
    ("slot via randint", [(_U, "rand_idx = random.randrange(self.size)", "rand_idx = random.randint(0, self.size - 1)")]),
]
