"""C05 -- batch and interval SAGE: efficiency over the explained data; interval schedule.

 BASE      the empty-coalition baseline is the mean model output over exactly the explained x_data, computed once;
 TELESCOPE per observation the chain starts at loss(y, baseline), the per-feature accumulator gains c_in - new and
           c_out = new; (explain_many) the imputed set starts full and loses the revealed feature before imputing;
           (original mode) the revealed dict gains x_i[feature] before the evaluations, the model input is
           background row overlaid by the revealed values, n evaluations are averaged by the mean model output;
 AVERAGE   returned value per feature = accumulated credits / number of explained observations, accumulators start
           at 0 for exactly the feature names;
 SCHEDULE  IntervalSage: the counter grows by one on every path before the schedule test; early return iff
           not forced and counter % interval_length != 0; the early path returns the stored values and evaluates
           nothing; recomputation explains storage.get_data(); default storage IntervalStorage(size=storage_length,
           store_targets=True); BatchSage.explain_one explains the data of its (target-storing) storage.
"""
from .. import ir
from ..paths import walk, paths
from ..report import AnalysisError
from .common import const_value, new_items, list_build
from .explcore import same, impute_args, meanout_arg, MEANOUT
from .imputerlib import merge_form
from .sagelib import role_fields, one, chain_loops, is_call_to, FEATURE_NAMES, direct_events

META = {
    "explanation": "TELESCOPE/FORMULA on the value graph of BatchSage.explain_many / explain_many_original (accumulator "
                   "update compared with c_in - new in exact normal form, baseline provenance, divisor = number of "
                   "outer iterations) and typestate/FORMULA on IntervalSage.explain_one (counter, schedule condition, "
                   "effect-free early return, storage provenance and default capacity).",
    "trusted_base": ["imputers honour C06; storages honour C07", "deterministic model and loss",
                     "enumerate(..., start=1) counts iterations"],
    "assumptions": ["original mode: the explained feature names cover every feature the model reads"],
}
META["explanation"] += ' Also COPY (copy / pickle hooks of IntervalStorage keep its state) and DEP-C14 WIRING.'
META["explanation"] += ' Round 5: DEP-C06 KEYS / VALUE / MERGE (empty selection at the end of a chain), DEP-C14 DISPATCH, accumulators initialised by a loop. HAZARD: constructs that do not mean what they look like, met in the analysed code (defaults evaluated once, class-level containers changed through self, dict.fromkeys with a shared mutable value, late-binding lambdas, truth value of objects that define __len__) are reported by every check.'
META["explanation"] += ' Round 6: DEP-C14 INPUT; losses kept in a container filled during the walk are not decided.'
MIN_INSTANCES = {"BASE": 2, "TELESCOPE": 4, "AVERAGE": 2, "SCHEDULE": 5, "WINDOW": 2}


def check(run):
    prog = run.prog
    bs = prog.find_class("BatchSage")
    isg = prog.find_class("IntervalSage")
    run.need(bs is not None and isg is not None, "anchor classes BatchSage / IntervalSage vanished")
    for method, original in (("explain_many", False), ("explain_many_original", True)):
        _batch(run, prog, bs, method, original)
    _batch_one(run, prog, bs)
    _interval(run, prog, isg, bs)
    # a caller-supplied storage / imputer and the configured lengths are used as given
    from . import c06, c07
    c06.depends_on(run, "C15", {"DEFAULTS", "CTOR"}, only=lambda rule, inst: inst.startswith(("BatchSage", "IntervalSage")))
    # the sliding window itself: IntervalStorage keeps exactly the last `size` observations and exposes them live
    from . import c06, c07
    ist = prog.find_class("IntervalStorage")
    run.need(ist is not None, "anchor class IntervalStorage vanished")
    c07._storage(c06.FilterRun(run, {"OBS", "COUNT", "PARALLEL"}, {"OBS": "WINDOW", "COUNT": "WINDOW", "PARALLEL": "WINDOW"}),
                 prog, ist, True)
    from .copylib import copy_protocol
    copy_protocol(run, prog, ist)           # a copied window keeps its capacity and contents
    c06.depends_on(run, "C06", {"KEYS", "VALUE", "MERGE"})      # the last link of every chain asks the imputer to replace nothing
    c06.depends_on(run, "C14", {"WIRING", "DISPATCH", "INPUT"})  # the baseline / last chain element go through the default wrappers' batch path


def _batch(run, prog, cls, method, original):
    roles, fields = role_fields(prog, cls)
    mf, lf, imf = one(fields, "MODEL", cls), one(fields, "LOSS", cls), one(fields, "IMPUTER", cls)
    s = prog.summarise(cls, method)
    fq = f"{cls.name}.{method}"
    run.analysed_fn(fq)
    _, fn = prog.find_method(cls, method)
    names = [a.arg for a in fn.args.args][1:]
    xd, yd, npar = ("param", names[0]), ("param", names[1]), ("param", names[2])
    N = ("gate", ("cmp", "is", npar, ("const", None)), ("field0", "n_inner_samples"), npar)
    W = lambda line: f"{s.path}:{line}"
    index = {id(ev): i for i, (ev, _) in enumerate(walk(s.events))}
    ctx_of = {id(ev): ctx for ev, ctx in walk(s.events)}
    # ---- chain --------------------------------------------------------------------------------------
    chains = chain_loops(s.events, lf)
    run.need(len(chains) == 1, f"{fq}: expected one chain loop, found {len(chains)}")
    L, Lctx = chains[0]
    outer = [l for l in Lctx.loops if not l.comp]
    run.need(len(outer) == 1, f"{fq}: the chain is not nested in exactly one observation loop")
    O = outer[0]
    elem = ("elem", L.lid)
    if L.iter[0] == "fn" and L.iter[1] == "enumerate" and L.iter[2]:
        elem = ("tget", elem, 1)        # the chain is numbered: the feature is the second component
    it = O.iter
    enum = it[0] == "fn" and it[1] == "enumerate"
    start_ix = None
    z = it
    if enum:
        z = it[2][0]
        start_ix = next((a[2] for a in it[2] if isinstance(a, tuple) and a and a[0] == "kw" and a[1] == "start"),
                        it[2][1] if len(it[2]) > 1 and it[2][1][0] != "kw" else ("const", 0))
    zipped = z[0] == "fn" and z[1] == "zip" and z[2] == (xd, yd)
    oe = ("elem", O.lid)
    pair = ("tget", oe, 1) if enum else oe
    xo, yo = ("tget", pair, 0), ("tget", pair, 1)
    run.check(zipped, "TELESCOPE", f"{method}.observations", W(O.line), fq, f"observation loop over {ir.show_nl(it)[:120]}",
              f"the explained observations must be the pairs zip(x_data, y_data); the loop runs over {ir.show_nl(it)[:160]}",
              "for (x_i, y_i) in zip(x_data, y_data)")
    carried = None
    for name, (init, nxt) in L.carried.items():
        if nxt is not None and nxt[0] == "res" and nxt[2] == f"self.{lf}":
            carried = (name, init, nxt)
    if carried is None:
        # the losses along the chain may be kept in a container the walk fills (`trajectory.append(loss)` ...
        # `before, after = trajectory[-2:]`) instead of a variable: that bookkeeping is not followed -- no verdict
        filled = {ev.recv for ev, _ in walk(L.body) if isinstance(ev, ir.Mut) and ev.method in ("append", "insert", "extend", "appendleft")}
        for ev, _ in walk(L.body):
            v = getattr(ev, "value", None)
            if isinstance(ev, ir.SubStore) and v is not None and any(
                    t[0] in ("sub", "tget") and t[1] in filled for t in ir.subterms(v)):
                raise AnalysisError(f"{fq}: the losses along the chain are kept in a container filled during the walk "
                                    f"({ir.show_nl(v)[:100]}); this bookkeeping is not decided")
        run.fail("TELESCOPE", f"{method}.carry", W(L.line), fq, "no loop-carried loss",
                 "the loss after revealing a feature is not carried over as the loss before the next one")
        return
    name, init, nxt = carried
    mu = ("mu", L.lid, name)
    # ---- BASE: the chain starts at loss(y_i, mean output of model(x_data)) computed once ---------------
    c0 = init[0] == "res" and init[2] == f"self.{lf}" and len(init[3]) == 2 and init[3][0] == yo and not init[4]
    run.check(c0, "TELESCOPE", f"{method}.start", W(L.line), fq, f"chain start {ir.show_nl(init)[:140]}",
              f"every observation's chain must start at loss(y_i, baseline) with positional (y_true, y_pred); found "
              f"{ir.show_nl(init)[:200]}", "c0 = loss(y_i, mean prediction)")
    if c0:
        outs0, why = meanout_arg(init[3][1], s.events)
        mcall = next((ev for ev, _ in walk(s.events) if isinstance(ev, ir.Call) and outs0 is not None and ev.res == outs0), None)
        good = outs0 is not None and outs0[0] == "res" and outs0[2] == f"self.{mf}" and outs0[3] == (xd,) and not outs0[4]
        once = mcall is not None and not [l for l in ctx_of[id(mcall)].loops if not l.comp]
        if outs0 is None:
            msg = f"the baseline is not a mean model output: {why}"
        elif not good:
            msg = f"the baseline is the mean output over {ir.show_nl(outs0)[:120]}, not over model(x_data) of the explained data"
        else:
            msg = "the baseline prediction is recomputed inside the observation loop" if not once else ""
        run.check(good and once, "BASE", f"{method}.baseline", W(mcall.line if mcall else s.fn.lineno), fq,
                  f"baseline: {msg or 'ok'}",
                  f"the empty-coalition baseline must be the mean model output over exactly the explained x_data, computed "
                  f"once: {msg}", "baseline = mean output of model(x_data)")
    body = direct_events(L)
    acc = None
    for ev, ctx in body:
        if isinstance(ev, ir.SubStore) and ev.key == elem and ("sub", ev.cont, elem) in ir.subterms(ev.value):
            acc = ev
    subst_back = None
    if acc is None:
        # credits collected during the walk and handed out by a second pass over the same chain (the engine pairs the
        # elements of `zip(chain, credits)` with the values computed for them in the walk)
        for lp2, ctx2 in walk(O.body, structural=True):
            if isinstance(lp2, ir.Loop) and not lp2.comp and lp2 is not L and lp2.iter == L.iter and \
                    [l for l in ctx2.loops if not l.comp] == []:
                e2 = ("elem", lp2.lid)
                for ev, ctx in direct_events(lp2):
                    if isinstance(ev, ir.SubStore) and ev.key == e2 and ("sub", ev.cont, e2) in ir.subterms(ev.value):
                        from .common import substitute
                        acc = ev._replace(key=elem, value=substitute(ev.value, {e2: elem}))
                        subst_back = lp2
    if acc is None:
        # credits collected in a list during the walk and handed out afterwards: not followed -- no verdict
        credit = ("op", "-", mu, nxt)
        lists = [ev.recv for ev, _ in body if isinstance(ev, ir.Mut) and ev.method == "append" and ev.args]
        for lp2, ctx2 in walk(O.body, structural=True):
            if isinstance(lp2, ir.Loop) and not lp2.comp and lp2.iter[0] == "fn" and lp2.iter[1] == "zip" and \
                    len(lp2.iter[2]) == 2 and lp2.iter[2][1] in lists and lp2.iter[2][0] != L.iter:
                run.fail("TELESCOPE", f"{method}.accumulate", W(lp2.line), fq,
                         f"credits paired with {ir.show_nl(lp2.iter[2][0])[:80]}",
                         f"the credits collected along the chain are handed out by pairing them with "
                         f"{ir.show_nl(lp2.iter[2][0])[:100]}, not with the chain they were computed for: features receive "
                         f"the credit of whichever feature was revealed at their position")
                return
        if any(isinstance(ev, ir.Mut) and ev.method == "append" and ev.args and same(ev.args[0], credit) for ev, _ in body):
            raise AnalysisError(f"{fq}: the credits of a chain are collected in a list and added to the accumulators "
                                f"after the walk; this bookkeeping is not decided")
        run.fail("TELESCOPE", f"{method}.accumulate", W(L.line), fq, "no per-feature accumulation",
                 "the chain does not add each feature's credit to that feature's accumulator")
        return
    A = acc.cont
    inc = ("op", "-", acc.value, ("sub", A, elem))
    good = same(inc, ("op", "-", mu, nxt))
    why = "" if good else ("sign reversed" if same(inc, ("op", "-", nxt, mu)) else f"increment is {ir.show_nl(acc.value)[:160]}")
    run.check(good, "TELESCOPE", f"{method}.credit", W(acc.line), fq, f"accumulator increment: {why or 'c_in - new'}",
              f"each chain step must add (loss before) - (loss after) to the revealed feature's accumulator: {why}",
              "acc[feature] += c_in - new; c_out = new")
    init_ok = A[0] == "comp" and A[1] == "dict" and A[3] == FEATURE_NAMES and A[4] == ("elem", A[2]) and \
        const_value(A[5]) == 0 and not A[6]
    if not init_ok and A[0] == "new" and A[2] == "dict" and not A[3]:
        # `acc = {}` filled by a loop `for f in feature_names: acc[f] = 0` before the observations are walked
        from .common import dict_build
        db = dict_build(A, s.events)
        first = [(k, v, c, e) for k, v, c, e in (db.entries if db else []) if getattr(e, "aug", None) is None]
        init_ok = len(first) == 1 and first[0][2] is not None and len(first[0][2].loops) == 1 and \
            not first[0][2].guards and not first[0][2].loops[0].comp and first[0][2].loops[0].iter == FEATURE_NAMES and \
            first[0][0] == ("elem", first[0][2].loops[0].lid) and const_value(first[0][1]) == 0
        if init_ok:
            order = {id(ev): i for i, (ev, _) in enumerate(walk(s.events, structural=True))}
            init_ok = order.get(id(first[0][3]), 1 << 30) < order.get(id(O), -1)    # before the observations are walked
    run.check(init_ok, "AVERAGE", f"{method}.acc-init", W(s.fn.lineno), fq, f"accumulators {ir.show_nl(A)[:120]}",
              f"accumulators must start at 0 for exactly the feature names; found {ir.show_nl(A)[:160]}",
              "acc = {f: 0 for f in feature_names}")
    # loss after revealing
    new_ok = len(nxt[3]) == 2 and nxt[3][0] == yo and not nxt[4]
    preds, why = (None, "")
    if new_ok:
        preds, why = meanout_arg(nxt[3][1], s.events)
        new_ok = preds is not None
    run.check(new_ok, "TELESCOPE", f"{method}.new", W(L.line), fq, f"loss after revealing: {why or 'ok'}",
              f"the loss after revealing must be loss(y_i, mean output of the n evaluations) with positional arguments: "
              f"{why or ir.show_nl(nxt)[:160]}", "new = loss(y_i, mean output(predictions))")
    if not new_ok:
        return
    if not original:
        imps = [(ev, ctx) for ev, ctx in body if is_call_to(ev, imf, "impute")]
        if len(imps) != 1:
            run.fail("TELESCOPE", f"{method}.impute", W(L.line), fq, f"{len(imps)} imputer calls per step",
                     "each chain step must evaluate exactly one coalition")
            return
        iev = imps[0][0]
        fs, xi, ns = impute_args(iev)
        full = fs is not None and fs[0] == "new" and fs[2] == "set" and fs[3] == (FEATURE_NAMES,)
        rem = [ev for ev, _ in body if isinstance(ev, ir.Mut) and ev.recv == fs and ev.method in ("remove", "discard")
               and tuple(ev.args) == (elem,)]
        before = bool(rem) and index[id(rem[0])] < index[id(iev)]
        fresh = fs is not None and O.lid in (ir.site_loops(fs) or ())
        run.check(full and before and fresh and preds == iev.res and xi == xo and ns == N, "TELESCOPE", f"{method}.coalition",
                  W(iev.line), fq, "coalition handling",
                  "the imputed set must start as all feature names for every observation, lose the revealed feature "
                  "before the imputation, and the imputer must get the observation's x_i and n; "
                  f"found subset={ir.show_nl(fs)[:80] if fs else None}, removed-before={before}, x_i={ir.show_nl(xi)[:40] if xi else None}",
                  "S = set(feature_names); S.remove(f); impute(S, x_i, n)")
    else:
        stores = [(ev, ctx) for ev, ctx in body if isinstance(ev, ir.SubStore) and ev.cont[0] == "new" and ev.cont[2] == "dict"
                  and ev.key == elem]
        xs = stores[0][0] if stores else None
        lb = list_build(preds, s.events)
        ok = xs is not None and xs.value == ("sub", xo, elem) and lb is not None and len(lb.entries) == 1
        why = "the revealed values are not extended by x_i[feature]" if xs is None or xs.value != ("sub", xo, elem) else \
            "the predictions are not one list of model evaluations"
        if ok:
            val = lb.entries[0][0]
            mev = next((ev for ev, _ in walk(L.body) if isinstance(ev, ir.Call) and ev.res == val), None)
            ok = val[0] == "res" and val[2] == f"self.{mf}" and mev is not None
            why = "the averaged values are not model evaluations"
        if ok:
            mfm = merge_form(mev.args[0], s.events) if mev.args else None
            ok = mfm is not None and mfm[1] == xs.cont and mfm[0][0] == "sub" and mfm[0][1] == xd and \
                index[id(xs)] < index[id(mev)]
            why = "the model input is not a background row of x_data overlaid by the revealed values (in this order)"
            rng = lb.over
            cnt = rng in (("fn", "range", (N,)), ("fn", "range", (("const", 1), ("op", "+", N, ("const", 1)))),
                          ("fn", "range", (("const", 0), N)))
            if lb.kind == "accum":
                ectx = lb.entries[0][1]
                inner = [l for l in ectx.loops if l is not L and l is not O and not l.comp]
                cnt = cnt and len(inner) == 1 and not ectx.guards
            run.check(cnt, "TELESCOPE", f"{method}.n-evaluations", W(mev.line), fq,
                      f"inner evaluations over {ir.show_nl(rng) if rng else None}",
                      f"exactly n model evaluations must be averaged per chain step; they range over "
                      f"{ir.show_nl(rng) if rng else 'nothing'}", "n evaluations per step")
        if ok and O.lid not in (ir.site_loops(xs.cont) or ()):
            ok, why = False, "the revealed-values dict is created once outside the observation loop: values revealed for one " \
                             "observation leak into the next one"
        run.check(ok, "TELESCOPE", f"{method}.coalition", W(L.line), fq, f"revealed-values handling: {why if not ok else 'ok'}",
                  "original mode must add x_i[feature] to the revealed values before the evaluations and evaluate the model "
                  f"on a background row of x_data overlaid by the revealed values, collecting every prediction: {why}",
                  "x_s[f] = x_i[f]; model({**x_data[idx], **x_s}) n times")
    # ---- AVERAGE ------------------------------------------------------------------------------------
    st = [ev for ev, _ in walk(s.events) if isinstance(ev, ir.Store) and ev.field == "importance_values"]
    if len(st) != 1:
        run.fail("AVERAGE", f"{method}.result", W(s.fn.lineno), fq, f"{len(st)} result stores",
                 "importance_values must be assigned exactly once, after all observations")
        return
    r = st[0].value
    ok = r[0] == "comp" and r[1] == "dict" and not r[6]
    cnt_ok = False
    if ok:
        over_items = r[3][0] == "res" and r[3][2] == ".items" and r[3][3][0] == A
        if over_items:
            key_ok = r[4] == ("tget", ("elem", r[2]), 0)
            num = ("tget", ("elem", r[2]), 1)
        else:
            key_ok = r[3] in (A, FEATURE_NAMES) and r[4] == ("elem", r[2])
            num = ("sub", A, ("elem", r[2]))
        v = r[5]
        ok = key_ok and v[0] == "op" and v[1] == "/" and v[2] == num
        if ok:
            den = v[3]

            def obs_count(d):
                """d is the number of explained observations: len(x_data), the 1-based enumeration index kept
                from the last iteration (len(x_data) if there was none), or a counter incremented once per iteration"""
                if d == ("fn", "len", (xd,)):
                    return "len"
                if d[0] == "eta" and d[1] == O.lid:
                    cinit, cnext = O.carried.get(d[2], (None, None))
                    if enum and const_value(start_ix) == 1 and cnext == ("tget", oe, 0) and cinit == ("fn", "len", (xd,)):
                        return "index"
                    if cinit is not None and const_value(cinit) == 0 and \
                            cnext in (("op", "+", ("mu", O.lid, d[2]), ("const", 1)), ("op", "+", ("const", 1), ("mu", O.lid, d[2]))):
                        return "counter"
                return None
            kind = obs_count(den)
            if kind in ("len", "index"):
                cnt_ok = True
            elif kind == "counter":
                cnt_ok = True           # no observation explained: 0 / 0 raises, nothing wrong is returned
            elif den[0] == "gate":
                # `count if count > 0 else len(x_data)`: the fallback only applies when nothing was explained
                from .common import gate_on
                for c in (x for x in ir.subterms(den[1]) if obs_count(x) == "counter"):
                    sel = gate_on(den, ("cmp", ">", c, ("const", 0))) or gate_on(den, ("cmp", ">=", c, ("const", 1))) or \
                        gate_on(den, ("cmp", "!=", c, ("const", 0)))
                    if sel is not None and sel[0] == c and obs_count(sel[1]) == "len":
                        cnt_ok = True
            why = "" if cnt_ok else f"divisor {ir.show_nl(den)} is not the number of explained observations"
        else:
            why = f"value {ir.show_nl(v)[:140]}"
    else:
        why = f"result {ir.show_nl(r)[:140]}"
    run.check(ok and cnt_ok, "AVERAGE", f"{method}.result", W(st[0].line), fq, f"result: {why or 'acc / count'}",
              f"each returned value must be the feature's accumulated credits divided by the number of explained "
              f"observations: {why}", "importance_values[f] = acc[f] / len(x_data)")
    run.check(s.ret == r or s.ret == ("field0", "importance_values"), "AVERAGE", f"{method}.return", W(s.fn.lineno), fq,
              "return value", "the method must return the importance values it just computed", "returns importance_values")


def _batch_one(run, prog, cls):
    s = prog.summarise(cls, "explain_one")
    fq = f"{cls.name}.explain_one"
    run.analysed_fn(fq)
    roles, fields = role_fields(prog, cls)
    sf = one(fields, "STORAGE", cls)
    _, fn = prog.find_method(cls, "explain_one")
    names = [a.arg for a in fn.args.args][1:]
    x, y = ("param", names[0]), ("param", names[1])
    ups = [ev for ev, _ in walk(s.events) if is_call_to(ev, sf, "update")]
    gd = [ev for ev, _ in walk(s.events) if is_call_to(ev, sf, "get_data")]
    # the two estimators, whichever class of the hierarchy (public or a private base) holds them
    inl = [ev for ev, c in walk(s.events, structural=True) if isinstance(ev, ir.Inlined) and ev.cls is not None and
           ev.fn.name in ("explain_many", "explain_many_original") and ev.cls in prog.mro(cls)]
    ok = len(ups) == 1 and _xy(ups[0]) == (x, y) and len(gd) == 1 and len(inl) == 2
    run.check(ok, "SCHEDULE", "batch.explain_one", f"{s.path}:{s.fn.lineno}", fq, "store-then-explain",
              "BatchSage.explain_one must store (x_i, y_i) once and explain the storage's data in the selected mode",
              "storage.update(x, y); explain_many(*storage.get_data())")
    init = prog.summarise(cls, "__init__")
    t = init.fields.get(sf)
    dflt = [a for a in ir.subterms(t) if a[0] == "new" and a[2].endswith("BatchStorage")] if t else []
    good = bool(dflt) and new_items(dflt[0])[1].get("store_targets", (new_items(dflt[0])[0] or [("const", True)])[0]) == ("const", True)
    run.check(good, "SCHEDULE", "batch.default-storage", f"{init.path}:{init.fn.lineno}", f"{cls.name}.__init__",
              f"default storage {ir.show_nl(dflt[0]) if dflt else None}",
              "the default storage of BatchSage must be a BatchStorage that stores targets (the explanation needs y_data)",
              "BatchStorage(store_targets=True)")


def _norm_mod(g, mod):
    """A remainder is non-negative: spell every test of `mod` against 0 as == 0 / != 0."""
    from .common import substitute
    zero = ("const", 0)
    table = {("cmp", ">", mod, zero): ("cmp", "!=", mod, zero), ("cmp", "<=", mod, zero): ("cmp", "==", mod, zero),
             ("cmp", ">=", mod, ("const", 1)): ("cmp", "!=", mod, zero), ("cmp", "<", mod, ("const", 1)): ("cmp", "==", mod, zero),
             ("not", mod): ("cmp", "==", mod, zero)}
    g = substitute(g, table)
    if g == mod:
        return ("cmp", "!=", mod, zero)
    if isinstance(g, tuple) and g and g[0] in ("and", "or"):
        return (g[0], tuple(("cmp", "!=", mod, zero) if x == mod else x for x in g[1]))
    return g


def _xy(ev):
    kw = dict(ev.kwargs)
    a = list(ev.args)
    return kw.get("x", a[0] if a else None), kw.get("y", a[1] if len(a) > 1 else None)


def _interval(run, prog, cls, bs):
    s = prog.summarise(cls, "explain_one")
    fq = f"{cls.name}.explain_one"
    run.analysed_fn(fq)
    roles, fields = role_fields(prog, cls)
    mf, lf, imf, sf = (one(fields, r, cls) for r in ("MODEL", "LOSS", "IMPUTER", "STORAGE"))
    _, fn = prog.find_method(cls, "explain_one")
    names = [a.arg for a in fn.args.args][1:]
    x, y = ("param", names[0]), ("param", names[1])
    params = {a.arg for a in fn.args.args}
    force = ("param", "force_explain") if "force_explain" in params else None
    flag = ("param", "update_storage") if "update_storage" in params else None
    run.need(force is not None, "IntervalSage.explain_one has no force_explain parameter")
    seen = ("field0", "seen_samples")
    W = lambda line: f"{s.path}:{line}"
    from .algebra import identical
    nxt = s.fields.get("seen_samples", seen)
    ok, info = identical(nxt, ("op", "+", seen, ("const", 1)))
    run.check(ok, "SCHEDULE", "interval.count", W(s.fn.lineno), fq, f"seen_samples' = {ir.show_nl(nxt)}",
              f"every call must count exactly one observation on every path; {info if not ok else ''}", "seen' = seen + 1")
    seen1 = ("op", "+", seen, ("const", 1))
    ilen = ("field0", "interval_length")
    mod = ("op", "%", seen1, ilen)
    due = ("or", (force, ("cmp", "==", mod, ("const", 0))))          # reference: recompute iff forced or due
    from . import boolalg
    ps = paths(s.events, unroll=1)
    run.analysed["paths"] += len(ps)
    bad = None
    n_early = n_rec = 0
    # every modulo test of the schedule must be on the incremented counter and the configured interval
    for ev, ctx in walk(s.events, structural=True):
        if isinstance(ev, ir.If):
            for t in ir.subterms(ev.cond):
                if t[0] == "op" and t[1] == "%" and t != mod:
                    if t[2] == seen:
                        bad = "the schedule tests the call count before it is incremented"
                    else:
                        bad = f"the schedule tests {ir.show_nl(t)} instead of (call count) % interval_length"
    for p in ps:
        cb = [e for e in p.events if isinstance(e, ir.Call) and e.callee in (f"self.{mf}", f"self.{lf}", f"self.{imf}")]
        commits = [e for e in p.events if isinstance(e, ir.Store) and e.field == "importance_values"]
        sched = [_norm_mod(g, mod) for g in p.guards
                 if force in ir.subterms(g) or any(t[0] == "op" and t[1] == "%" for t in ir.subterms(g))]
        cond = boolalg.conj(sched) if sched else None
        rets = [e for e in p.events if isinstance(e, ir.Return)]
        lits = " & ".join(ir.show_nl(l) for l in sched) or "always"
        if cb:
            n_rec += 1
            if cond is None or not boolalg.implies(cond, due):
                bad = bad or f"a recomputation happens under [{lits}], which does not imply `forced or count % interval_length == 0`"
        else:
            n_early += 1
            if cond is None or not boolalg.implies(cond, ir.negate(due)):
                bad = bad or f"a call returns without recomputation under [{lits}], which does not imply `not forced and count % interval_length != 0`"
            elif commits:
                bad = bad or "the non-scheduled path rewrites the importance values"
            elif not rets or ir.assume(rets[-1].value, list(p.guards)) != ("field0", "importance_values"):
                v = ir.assume(rets[-1].value, list(p.guards)) if rets else None
                raw = rets[-1].value if rets else None
                if raw is not None and raw[0] == "gate" and ("field0", "importance_values") in (raw[2], raw[3]) and \
                        not (v is not None and v[0] == "gate"):
                    # one common `return self.importance_values` after a conditional recomputation: which arm this path
                    # takes is not decided by matching the path's tests against the selection's condition
                    raise AnalysisError(f"{fq}: the value returned on the non-scheduled path is {ir.show_nl(v)[:100] if v else None}; "
                                        f"whether it is the stored value is not decided")
                if not (v is not None and v[0] == "gate"):
                    bad = bad or "the non-scheduled path does not return the stored importance values"
    run.check(bad is None and n_early >= 1 and n_rec >= 1, "SCHEDULE", "interval.schedule", W(s.fn.lineno), fq,
              bad or "schedule",
              f"recomputation must happen exactly when forced or when the incremented call count is a multiple of "
              f"interval_length, and otherwise the stored values are returned without evaluating anything: {bad}",
              f"{n_early} early-return and {n_rec} recomputation paths; recompute <=> force or (seen+1) % interval_length == 0")
    # recomputation explains the storage's data
    inl = [(ev, ctx) for ev, ctx in walk(s.events, structural=True) if isinstance(ev, ir.Inlined) and ev.cls is not None and ev.fn.name == "explain_many" and ev.cls in prog.mro(bs)]
    gd = [ev for ev, _ in walk(s.events) if is_call_to(ev, sf, "get_data")]
    base = [ev for ev, _ in walk(s.events) if isinstance(ev, ir.Call) and ev.callee == f"self.{mf}" and ev.args and
            gd and ev.args[0] == ("tget", gd[0].res, 0)]
    run.check(len(inl) == 1 and len(gd) == 1 and bool(base), "SCHEDULE", "interval.window", W(s.fn.lineno), fq,
              "recomputation data", "recomputation must explain exactly the storage's current data (get_data())",
              "explain_many(*self._storage.get_data())")
    ups = [(ev, ctx) for ev, ctx in walk(s.events) if is_call_to(ev, sf, "update")]
    good = len(ups) == 1 and _xy(ups[0][0]) == (x, y) and (flag is None or ups[0][1].guards == (flag,))
    run.check(good, "SCHEDULE", "interval.storage-update", W(s.fn.lineno), fq, "storage update",
              "the storage must be updated with (x_i, y_i) exactly once iff update_storage", "storage.update(x, y) iff flag")
    init = prog.summarise(cls, "__init__")
    run.analysed_fn(f"{cls.name}.__init__")
    t = init.fields.get(sf)
    dflt = [a for a in ir.subterms(t) if a[0] == "new" and a[2].endswith("IntervalStorage")] if t else []
    good = False
    if dflt:
        pos, kw = new_items(dflt[0])
        size = kw.get("size", pos[0] if pos else None)
        st = kw.get("store_targets", pos[1] if len(pos) > 1 else ("const", True))
        good = size == ("param", "storage_length") and st == ("const", True)
    run.check(good, "SCHEDULE", "interval.default-storage", f"{init.path}:{init.fn.lineno}", f"{cls.name}.__init__",
              f"default storage {ir.show_nl(dflt[0]) if dflt else None}",
              "the default storage must be IntervalStorage(size=storage_length, store_targets=True): the window of the most "
              f"recent storage_length observations; found {ir.show_nl(dflt[0]) if dflt else None}",
              "IntervalStorage(size=storage_length, store_targets=True)")
    il = init.fields.get("interval_length")
    run.check(il == ("param", "interval_length"), "SCHEDULE", "interval.length", f"{init.path}:{init.fn.lineno}",
              f"{cls.name}.__init__", f"interval_length = {ir.show_nl(il) if il else None}",
              "interval_length is not stored unchanged", "self.interval_length = interval_length")


_B = "ixai/explainer/sage/batch.py"
_T = "ixai/explainer/sage/interval.py"
WITNESSES = [
    ("divide by len + 1", [(_B, "        self.importance_values = {feature: sage_value / n_data\n", "        self.importance_values = {feature: sage_value / (n_data + 1)\n")]),
    ("enumerate from 0", [(_B, "enumerate(zip(x_data, y_data), start=1)", "enumerate(zip(x_data, y_data), start=0)")]),
    ("inverted modulo test", [(_T, "self.seen_samples % self.interval_length != 0", "self.seen_samples % self.interval_length == 0")]),
    ("force flag dropped", [(_T, "if not force_explain and self.seen_samples", "if self.seen_samples")]),
    ("capacity from interval_length", [(_T, "size=storage_length", "size=interval_length")]),
    ("increment after the test", [(_T, "        self.seen_samples += 1\n        if not force_explain and self.seen_samples % self.interval_length != 0:\n            return self.importance_values\n",
                                   "        if not force_explain and self.seen_samples % self.interval_length != 0:\n            self.seen_samples += 1\n            return self.importance_values\n        self.seen_samples += 1\n")]),
    ("model call before the early return", [(_T, "        if not force_explain and self.seen_samples", "        _ = self._model_function(x_i)\n        if not force_explain and self.seen_samples")]),
    ("baseline from the storage", [(_B, "        all_predictions = self._model_function(x_data)\n        marginal_prediction = _get_mean_model_output(all_predictions)\n        for n, (x_i, y_i) in tqdm(enumerate(zip(x_data, y_data), start=1), total=n_data,\n                                  disable=not verbose):\n            permutation_chain = [self.feature_names[i]\n                                 for i in np.random.permutation(len(self.feature_names))]\n            loss_previous = self._loss_function(y_i, marginal_prediction)\n            features_not_in_s",
                                    "        all_predictions = self._model_function(self._storage.get_data()[0])\n        marginal_prediction = _get_mean_model_output(all_predictions)\n        for n, (x_i, y_i) in tqdm(enumerate(zip(x_data, y_data), start=1), total=n_data,\n                                  disable=not verbose):\n            permutation_chain = [self.feature_names[i]\n                                 for i in np.random.permutation(len(self.feature_names))]\n            loss_previous = self._loss_function(y_i, marginal_prediction)\n            features_not_in_s")]),
    ("credit sign reversed", [(_B, "marginal_contribution = loss_previous - feature_loss\n                sage_values[feature] += marginal_contribution\n                loss_previous = feature_loss\n            n_data = n\n        self.importance_values = {feature: sage_value / n_data\n                                  for feature, sage_value in sage_values.items()}\n        return self.importance_values\n\n    def explain_many_original",
                               "marginal_contribution = feature_loss - loss_previous\n                sage_values[feature] += marginal_contribution\n                loss_previous = feature_loss\n            n_data = n\n        self.importance_values = {feature: sage_value / n_data\n                                  for feature, sage_value in sage_values.items()}\n        return self.importance_values\n\n    def explain_many_original")]),
    ("keyword loss call (pre-repair)", [(_B, "loss_previous = self._loss_function(y_i, marginal_prediction)", "loss_previous = self._loss_function(y_true=y_i, y_prediction=marginal_prediction)")]),
    ("original mode: one evaluation too few", [(_B, "for _ in range(1, n_inner_samples + 1):", "for _ in range(1, n_inner_samples):")]),
    ("original mode: revealed values under the background", [(_B, "x_marginal = {**x_marginal, **x_s}", "x_marginal = {**x_s, **x_marginal}")]),
    ("schedule by elapsed calls", [(_T, "        if not force_explain and self.seen_samples % self.interval_length != 0:\n            return self.importance_values\n",
                                    "        if not force_explain and self.seen_samples - getattr(self, '_last', 0) < self.interval_length:\n            return self.importance_values\n        self._last = self.seen_samples\n")]),
    ("storage update ignores the flag", [(_T, "        if update_storage:\n            self._storage.update(x=x_i, y=y_i)\n", "        self._storage.update(x=x_i, y=y_i)\n")]),
]
SILENT = [
    ("divide by len(x_data)", [(_B, "        self.importance_values = {feature: sage_value / n_data\n                                  for feature, sage_value in sage_values.items()}\n        return self.importance_values\n\n    def explain_many_original",
                                "        self.importance_values = {feature: sage_value / len(x_data)\n                                  for feature, sage_value in sage_values.items()}\n        return self.importance_values\n\n    def explain_many_original")]),
    ("modulo test with >", [(_T, "self.seen_samples % self.interval_length != 0", "self.seen_samples % self.interval_length > 0")]),
]
