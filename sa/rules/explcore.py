"""Structure recovery and shared obligations for the incremental explainers (C01, C02, C03, C15)."""
import ast

from .. import ir
from ..paths import walk, paths, strip_gates
from ..poly import Normaliser, OutOfDomain
from ..report import AnalysisError
from .algebra import identical
from .common import const_value, new_items
from .sagelib import role_fields, one, chain_loops, is_call_to, FEATURE_NAMES

MEANOUT = "ixai.explainer.base._get_mean_model_output"


def same(a, b, atoms=None):
    try:
        return Normaliser(atoms).same(a, b)
    except OutOfDomain:
        return a == b


class Inc:
    """Facts about one incremental explainer class (IncrementalPFI / IncrementalSage)."""

    def __init__(self, run, prog, cls):
        self.run, self.prog, self.cls = run, prog, cls
        self.roles, self.fields = role_fields(prog, cls)
        self.mf = one(self.fields, "MODEL", cls)
        self.lf = one(self.fields, "LOSS", cls)
        self.imf = one(self.fields, "IMPUTER", cls)
        self.sf = one(self.fields, "STORAGE", cls)
        self.s = prog.summarise(cls, "explain_one")
        self.fq = f"{cls.name}.explain_one"
        run.analysed_fn(self.fq)
        _, fn = prog.find_method(cls, "explain_one")
        names = [a.arg for a in fn.args.args][1:]
        if len(names) < 2:
            raise AnalysisError(f"{self.fq} does not take (x_i, y_i, ...)")
        self.x, self.y = ("param", names[0]), ("param", names[1])
        self.nparam = ("param", names[2]) if len(names) > 2 else None
        self.flag = ("param", names[3]) if len(names) > 3 else None
        self.N = ("gate", ("cmp", "is", self.nparam, ("const", None)), ("field0", "n_inner_samples"), self.nparam)
        # tracker fields by their public getters
        self.IT = self._getter_field("importance_values")
        self.VT = self._getter_field("variances")
        self.index = {id(ev): i for i, (ev, _) in enumerate(walk(self.s.events))}
        self.ctx_of = {id(ev): ctx for ev, ctx in walk(self.s.events)}

    def _getter_field(self, name):
        owner, fn = self.prog.find_method(self.cls, name)
        if fn is None:
            raise AnalysisError(f"{self.cls.name} has no {name} getter")
        r = self.prog.summarise(self.cls, name).ret
        for t in ir.subterms(r):
            if t[0] == "res" and t[2].startswith("self.") and t[2].endswith((".get", ".get_normalized")):
                f = t[2][5:].rsplit(".", 1)[0]
                if self.roles.get(f) == "TRACKER":
                    return f
        raise AnalysisError(f"{self.cls.name}.{name} does not read a tracker")

    def updates(self, field):
        return [(ev, ctx) for ev, ctx in walk(self.s.events) if is_call_to(ev, field, "update")]

    def explain_literal(self):
        """The condition that guards the estimation (dominates every model/loss/imputer call)."""
        lits = None
        for ev, ctx in walk(self.s.events):
            if isinstance(ev, ir.Call) and ev.callee in (f"self.{self.mf}", f"self.{self.lf}", f"self.{self.imf}"):
                g = [x for x in ctx.guards]
                lits = set(g) if lits is None else lits & set(g)
        if not lits:
            return None
        seen = ("field0", "seen_samples")
        for l in lits:
            if seen in ir.subterms(l):
                return l
        return None

    def where(self, line):
        return f"{self.s.path}:{line}"


def impute_args(ev):
    """(feature_subset, x_i, n_samples) of an imputer call event (positional or keyword)."""
    kw = dict(ev.kwargs)
    a = list(ev.args)
    fs = kw.get("feature_subset", a[0] if len(a) > 0 else None)
    xi = kw.get("x_i", a[1] if len(a) > 1 else None)
    ns = kw.get("n_samples", a[2] if len(a) > 2 else None)
    return fs, xi, ns


def check_guard_and_counter(inc, rule, prefix):
    """explain <=> seen_samples >= 1 ; seen_samples += 1 exactly once on every path."""
    run = inc.run
    E = inc.explain_literal()
    seen = ("field0", "seen_samples")
    ok = E in (("cmp", ">=", seen, ("const", 1)), ("cmp", ">", seen, ("const", 0)), ("cmp", "<=", ("const", 1), seen),
               ("cmp", "<", ("const", 0), seen), ("cmp", "!=", seen, ("const", 0)), seen)
    run.check(ok, rule, f"{prefix}.guard", inc.where(inc.s.fn.lineno), inc.fq, f"estimation guard {ir.show_nl(E) if E else None}",
              f"estimation must run exactly when at least one observation has been seen (seen_samples >= 1): every "
              f"model/loss/imputer call must be dominated by that test; found {ir.show_nl(E) if E else 'no such guard'}",
              f"explain <=> {ir.show_nl(E) if E else ''}")
    nxt = inc.s.fields.get("seen_samples", seen)
    same_, info = identical(nxt, ("op", "+", seen, ("const", 1)))
    run.check(same_, rule, f"{prefix}.count", inc.where(inc.s.fn.lineno), inc.fq, f"seen_samples' = {ir.show_nl(nxt)}",
              f"one explain_one call must count exactly one seen sample on every path; {info if not same_ else ''}",
              "seen_samples' = seen_samples + 1 on every path")
    return E


def alpha_field(prog, cls):
    """(field name or None, term) of the smoothing parameter actually given to the exponential-smoothing
    tracker in the constructor chain of an explainer (no reliance on the private attribute's name)."""
    s = prog.summarise(cls, "__init__")
    es = prog.find_class("ExponentialSmoothingTracker")
    for ev, ctx in walk(s.events):
        if isinstance(ev, ir.Construct) and es is not None and ev.qual == es.qual:
            a = dict(ev.kwargs).get("alpha", ev.args[0] if ev.args else None)
            if a is not None:
                f = next((name for name, t in s.fields.items() if t == a), None)
                return f, a
    return None, None


def tracker_operator(run, prog, cls, rule, prefix):
    """All estimate trackers are independent copies of one base tracker chosen by dynamic_setting/alpha."""
    from .common import gate_on
    s = prog.summarise(cls, "__init__")
    fq = f"{cls.name}.__init__"
    run.analysed_fn(fq)
    roles, fields = role_fields(prog, cls)
    trackers = fields.get("TRACKER", [])
    run.need(len(trackers) >= 2, f"{cls.name}: fewer than two tracker fields")
    mv = prog.find_class("MultiValueTracker")
    mv_copies = False
    if mv is not None:
        mi = prog.summarise(mv, "__init__")
        _, mfn = prog.find_method(mv, "__init__")
        bp = ("param", [a.arg for a in mfn.args.args][1])
        mv_copies = any(v[0] == "new" and v[2] == "deepcopy" and v[3] == (bp,) for v in mi.fields.values())
    bases = {}
    fresh_seen = {}
    tracker_quals = {c.qual for c in prog.all_classes() if c.name.endswith("Tracker")}

    def fresh(t):
        """t is, on every arm, a tracker constructed right here (not an object that existed before)."""
        leaves = strip_gates(t)
        return bool(leaves) and all(x[0] == "new" and x[2] in tracker_quals for x in leaves)
    owners = {}
    for f in trackers:
        t = s.fields.get(f)
        if t in owners:
            # one creation site, two fields: the very same object
            run.fail(rule, f"{prefix}.copy.{f}", f"{s.path}:{s.fn.lineno}", fq, f"self.{f} is self.{owners[t]}",
                     f"every estimate tracker must be an independent deep copy of the one base tracker; self.{f} and "
                     f"self.{owners[t]} are the same object (a shared object would be updated through several fields)")
            continue
        owners[t] = f
        inner, via_mv = t, False

        def wrapped(x):
            """The base tracker handed to MultiValueTracker(...), through selections whose arms all build one."""
            if x[0] == "gate":
                a, b = wrapped(x[2]), wrapped(x[3])
                return ir.gate(x[1], a, b) if a is not None and b is not None else None
            if x[0] == "new" and isinstance(x[2], str) and x[2].endswith("MultiValueTracker"):
                pos, kw = new_items(x)
                return pos[0] if pos else kw.get("base_tracker")
            return None
        if wrapped(inner) is not None:
            inner = wrapped(inner)
            via_mv = True
        if inner is not None and inner[0] == "new" and inner[2] == "deepcopy" and inner[3]:
            bases.setdefault(ir.strip_sites(inner[3][0]), inner[3][0])
            continue
        if via_mv and inner is not None and mv_copies:
            bases.setdefault(ir.strip_sites(inner), inner)     # MultiValueTracker deep-copies its base tracker itself
            continue
        if inner is not None and fresh(inner) and inner not in fresh_seen:
            # a tracker built on the spot (its creation site differs from every other field's) is as
            # independent as a deep copy
            fresh_seen[inner] = f
            bases.setdefault(ir.strip_sites(inner), inner)
            continue
        run.fail(rule, f"{prefix}.copy.{f}", f"{s.path}:{s.fn.lineno}", fq, f"self.{f} = {ir.show_nl(t)[:100]}",
                 f"every estimate tracker must be an independent deep copy of the one base tracker; self.{f} is "
                 f"{ir.show_nl(t)[:160]} (a shared object would be updated through several fields)")
    # the estimates start empty: the constructor must not feed any value into an estimate tracker (every tracker
    # must have seen exactly the explained observations -- a tracker that is one update ahead of the others
    # breaks the identities between them)
    for ev, ctx in walk(s.events):
        fed = None
        if isinstance(ev, ir.Call) and ev.method == "update" and any(ev.callee == f"self.{f}" for f in trackers):
            fed = ev.callee[5:]
        elif isinstance(ev, ir.Mut) and ev.method == "update" and any(ev.recv == s.fields.get(f) for f in trackers):
            fed = next(f for f in trackers if ev.recv == s.fields.get(f))
        if fed is not None:
            run.fail(rule, f"{prefix}.pristine.{fed}", f"{s.path}:{ev.line}", fq,
                     f"constructor updates self.{fed}: {run.stmt_text(s.path, ev.line)}",
                     f"the estimate trackers must be empty after construction; the constructor already feeds a value "
                     f"into self.{fed}, so this estimate counts one observation more than the other trackers")
    if len(bases) > 1:
        run.fail(rule, f"{prefix}.same-base", f"{s.path}:{s.fn.lineno}", fq, "different base trackers",
                 "the trackers are not copies of one base tracker: " + " | ".join(ir.show_nl(b)[:80] for b in bases.values()))
        return
    if not bases:
        return
    base = next(iter(bases.values()))
    dyn = ("param", "dynamic_setting")
    sa = ("param", "smoothing_alpha")
    es = prog.find_class("ExponentialSmoothingTracker")
    wf = prog.find_class("WelfordTracker")
    sel = gate_on(base, dyn)
    ok = sel is not None and sel[0][0] == "new" and sel[0][2] == es.qual and sel[1][0] == "new" and sel[1][2] == wf.qual
    if ok:
        pos, kw = new_items(sel[0])
        a = kw.get("alpha", pos[0] if pos else None)
        dflt = gate_on(a, ("cmp", "is", sa, ("const", None))) if a is not None else None
        eff_ok = a == sa or (dflt is not None and const_value(dflt[0]) is not None and
                             abs(float(const_value(dflt[0])) - 0.001) < 1e-12 and dflt[1] == sa)
        if not (a is not None and eff_ok):
            run.fail(rule, f"{prefix}.alpha", f"{s.path}:{s.fn.lineno}", fq, f"alpha = {ir.show_nl(a) if a else None}",
                     f"the exponential smoothing tracker must use the configured smoothing parameter (default 0.001); "
                     f"it uses {ir.show_nl(a) if a else None}")
    run.check(ok, rule, f"{prefix}.selection", f"{s.path}:{s.fn.lineno}", fq, f"base tracker {ir.show_nl(base)[:160]}",
              f"base tracker must be ExponentialSmoothingTracker(alpha) in the dynamic setting and WelfordTracker() "
              f"otherwise; found {ir.show_nl(base)[:200]}",
              "base = dynamic ? ExponentialSmoothingTracker(alpha=configured) : WelfordTracker(); all trackers copies of it")
    _, ifn = prog.find_method(cls, "__init__")
    own = {a.arg for a in ifn.args.args + ifn.args.kwonlyargs}
    run.check({"dynamic_setting", "smoothing_alpha"} <= own, rule, f"{prefix}.passthrough", f"{s.path}:{s.fn.lineno}", fq,
              "constructor parameters", "the explainer does not expose dynamic_setting / smoothing_alpha",
              "dynamic_setting and smoothing_alpha are passed through unchanged")
    return base


def defaults_resolution(run, prog, cls, rule, prefix):
    """A caller-supplied storage / imputer is used as given; the default is built only when the argument
    is None (not when it is merely falsy: an empty storage has len() == 0)."""
    from .algebra import arms
    from .boolalg import holds
    s = prog.summarise(cls, "__init__")
    fq = f"{cls.name}.__init__"
    roles, fields = role_fields(prog, cls)
    _, ifn = prog.find_method(cls, "__init__")
    params = {a.arg for a in ifn.args.args + ifn.args.kwonlyargs}
    for role, pname in (("STORAGE", "storage"), ("IMPUTER", "imputer")):
        if pname not in params or not fields.get(role):
            continue
        f = fields[role][0]
        t = s.fields.get(f)
        par = ("param", pname)
        bad = None
        n = 0
        for facts, v in arms(t):
            # a freshly constructed object is never None: such arms are infeasible
            if any(g[0] == "cmp" and g[1] == "is" and g[3] == ("const", None) and g[2][0] == "new" for g in facts):
                continue
            n += 1
            if v == par:
                continue
            if v[0] == "new" and "." in v[2]:
                if not holds(facts, ("cmp", "is", par, ("const", None))):
                    gtxt = " & ".join(ir.show_nl(g) for g in facts)
                    bad = f"the default {v[2].rsplit('.', 1)[1]} replaces the {pname} argument under [{gtxt}], not only when it is None"
            else:
                bad = f"self.{f} becomes {ir.show_nl(v)[:100]}"
        run.check(bad is None and n >= 2, rule, f"{prefix}.{pname}", f"{s.path}:{s.fn.lineno}", fq,
                  f"{pname} default: {bad or 'is None test'}",
                  f"a {pname} passed by the caller must be used as it is (even when it is still empty); {bad}",
                  f"self.{f} = {pname} if {pname} is not None else <default>")


def meanout_arg(r, events=()):
    """If r is the mean model output {l: sum(o.get(l, 0) for o in outs) / len(outs) for l in union of
    the outputs' keys}, return (outs, ''), else (None, reason). Works on the inlined helper as well as on
    an explainer that spells the mean out itself; the dict may be a comprehension or an accumulator
    filled in a loop over the labels (events = the enclosing summary's events)."""
    from .common import dict_build
    if r[0] == "res" and r[2] == MEANOUT and r[3]:
        return r[3][0], ""                      # helper kept as a call (inlining bound): its own check applies
    db = dict_build(r, events)
    if db is None or not db.entries:
        return None, f"{ir.show_nl(r)[:120]} is not a dict built over the labels"
    if db.kind == "comp" and r[6]:
        return None, "labels are filtered"
    if len(db.entries) != 1 or db.init_items:
        return None, f"{len(db.entries)} writes to the mean-output dict"
    key, v, ectx, eev = db.entries[0]
    lab = ("elem", db.lid)
    if key != lab:
        return None, f"key {ir.show_nl(key)[:60]} is not the label being averaged"
    labels = db.over
    if labels is None or not (labels[0] == "comp" and labels[1] == "set" and not labels[6] and labels[5][0] == "flat"):
        return None, f"labels range over {ir.show_nl(labels)[:100] if labels else None}, expected the union of all output keys"
    outs = labels[3]
    inner = labels[5][1]
    lab_ok = inner[0] == "comp" and inner[3] == ("elem", labels[2]) and inner[5] == ("elem", inner[2]) and not inner[6]
    if not lab_ok:
        return None, f"labels range over {ir.show_nl(labels)[:100]}, expected the union of all output keys"
    if ectx is not None:
        # the only guard allowed around the accumulation is a test on the label set itself (empty -> {})
        for g in ectx.guards:
            if lab in ir.subterms(g):          # a per-label condition would drop labels from the mean
                return None, f"a label is only averaged when {ir.show_nl(g)[:80]}"
    if not (v[0] == "op" and v[1] == "/"):
        return None, f"value {ir.show_nl(v)[:120]} is not sum/len"
    num, den = v[2], v[3]
    terms = num
    if num[0] == "fn" and num[1] == "sum" and len(num[2]) == 1:
        terms = num[2][0]
    if terms[0] == "new" and terms[2] == "list" and len(terms[3]) == 1:
        terms = terms[3][0]
    num_ok = terms[0] == "comp" and terms[3] == outs and not terms[6] and terms[5][0] == "res" and \
        terms[5][2] == ".get" and terms[5][3][0] == ("elem", terms[2]) and terms[5][3][1] == lab and \
        len(terms[5][3]) == 3 and const_value(terms[5][3][2]) == 0
    if not num_ok:
        return None, f"numerator {ir.show_nl(num)[:120]} is not the sum over all outputs of output.get(label, 0)"
    if den != ("fn", "len", (outs,)):
        return None, f"denominator {ir.show_nl(den)[:80]} is not the number of outputs"
    return outs, ""


def meanout_ok(run, prog, rule, inst):
    """The shipped helper (if it still exists under its name) has the mean-output form."""
    try:
        s = prog.summarise_func(MEANOUT)
    except ir.Unsupported:
        # the helper is not kept under that name: wherever it is called it is inlined, and each call
        # site is required to have the mean-output form (meanout_arg)
        run.ok(rule, inst, "no separate mean-output helper under the shipped name: the form is decided at every use site")
        return True
    run.analysed_fn("_get_mean_model_output")
    _, fn = prog.func(MEANOUT)
    outs = ("param", fn.args.args[0].arg)
    got, why = meanout_arg(s.ret, s.events)
    ok = got == outs
    run.check(ok, rule, inst, f"{s.path}:{s.fn.lineno}", "_get_mean_model_output", f"mean output: {why or 'ok'}",
              f"the mean model output must be, per label of any output, the sum of output.get(label, 0) divided by the "
              f"number of outputs (a missing label counts as 0): {why}",
              "{l: sum(o.get(l, 0) for o in outs) / len(outs) for l in union of keys}")
    return ok
