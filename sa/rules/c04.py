"""C04 -- unbiased updates: uniform feature orders and background rows (schema conformance, rule DRAW).

 ORDER  the SAGE chain (IncrementalSage.explain_one, BatchSage.explain_many / explain_many_original) iterates
        a uniform-permutation primitive applied to exactly the explainer's feature names, drawn afresh for
        every explained observation;
 ROW    MarginalImputer: row index uniform on [0, len(rows)) of the storage's current rows, one index per
        inner sample under 'joint', one per feature under 'product' (clauses shared with C06);
        TreeImputer (storage mode): uniform index over the routed leaf reservoir;
 ORIG   BatchSage original mode: background index uniform on [0, len(x_data)) of the very x_data that is
        subscripted (no loop-carried value in the bound), fresh per inner sample.
The distributional statement follows from the uniformity of the primitives (trusted).
"""
from .. import ir
from ..paths import walk
from ..report import AnalysisError
from . import c06
from .common import defines, explainer_classes, calls
from .drawlib import uniform_permutation, exact_range, draws_in
from .imputerlib import imputer_classes
from .sagelib import role_fields, one, chain_loops, FEATURE_NAMES

META = {
    "explanation": "DRAW: provenance and exact range of every RNG draw that decides a feature order or a background "
                   "row, as terms of the effect summaries: permutation primitive over exactly the feature-name list "
                   "inside the per-observation scope; row indices uniform on [0,len(S)) subscripting the same S; loop "
                   "nest of each draw (per sample / per feature) for the joint and product strategies.",
    "trusted_base": ["uniformity and independence of random.* / numpy.random.* primitives (table 4.6)",
                     "expectation over uniform orders/rows equals the Shapley / PFI value (mathematics)"],
    "assumptions": [],
    "not_decided": "the sampling distributions themselves",
}
META["explanation"] += " Also DEP-C18 E1 (no save / restore of the global generators' state) and the COPY clause of the imputers."
META["explanation"] += " Round 5: the default imputer's KEYS / VALUE / MERGE / NOMUT clauses and C07 OBS as dependencies. HAZARD: constructs that do not mean what they look like, met in the analysed code (defaults evaluated once, class-level containers changed through self, dict.fromkeys with a shared mutable value, late-binding lambdas, truth value of objects that define __len__) are reported by every check."
MIN_INSTANCES = {"ORDER": 3, "ROW": 3, "ORIG": 1}


def check(run):
    prog = run.prog
    n_chain = 0
    for cls in explainer_classes(prog):
        roles, fields = role_fields(prog, cls)
        lf = one(fields, "LOSS", cls)
        for method in ("explain_one", "explain_many", "explain_many_original"):
            owner, fn = prog.find_method(cls, method)
            if fn is None or not defines(prog, cls, method):
                continue
            s = prog.summarise(cls, method)
            chains = chain_loops(s.events, lf)
            if not chains:
                continue
            if any(ev for ev, _ in walk(s.events, structural=True) if isinstance(ev, ir.Inlined) and
                   ev.qual.endswith(("explain_many", "explain_many_original"))):
                continue        # delegating entry point: the chain is checked in the delegate
            if cls.name == "IncrementalPFI":
                continue
            fq = f"{cls.name}.{method}"
            run.analysed_fn(fq)
            for lp, ctx in chains:
                n_chain += 1
                verdict, info = uniform_permutation(lp.iter, FEATURE_NAMES)
                if verdict == "unknown":
                    raise AnalysisError(f"{fq}: {info}")
                if verdict == "coerce":
                    run.ok("ORDER", fq, "uniform permutation of the feature names (NumPy-coerced elements: see C15)")
                    draw = info
                elif verdict is True:
                    draw = info
                    run.ok("ORDER", fq, f"chain = uniform permutation of self.feature_names via {draw[2]}")
                else:
                    if not any(t == FEATURE_NAMES or t[0] == "draw" for t in ir.subterms(lp.iter)) and \
                            any(t[0] == "param" for t in ir.subterms(lp.iter)):
                        # the innermost loop around the loss calls walks neither the feature names nor anything drawn: the
                        # walk along the feature order is not written as a loop here (a lazily consumed generator, ...)
                        raise AnalysisError(f"{fq}: the loop around the loss evaluations runs over {ir.show_nl(lp.iter)[:80]}; "
                                            f"the walk along the feature order is not identified")
                    run.fail("ORDER", fq, f"{s.path}:{lp.line}", fq, f"chain over {ir.show_nl(lp.iter)[:140]}",
                             f"the feature order must be a uniformly random permutation of exactly the feature names: {info}")
                    continue
                outer = {l.lid for l in ctx.loops}
                fresh = outer <= set(draw[5])
                run.check(fresh, "ORDER", f"{fq}.fresh", f"{s.path}:{lp.line}", fq, "order drawn outside the observation loop",
                          "one feature order is reused for several explained observations (it is drawn outside the "
                          "per-observation loop)", "order drawn per explained observation")
            if method == "explain_many_original":
                _original(run, prog, cls, s, fq, roles, fields, chains)
    run.need(n_chain >= 3 or run.findings, f"only {n_chain} SAGE chains found (expected >= 3)")

    # the PFI / SAGE quantities whose expectation is taken (C02 FORMULA, C03 NEW) are obligations here too
    from .c06 import depends_on
    depends_on(run, "C02", {"FORMULA"})
    depends_on(run, "C03", {"NEW", "KEY", "COMPL"})
    depends_on(run, "C06", {"COPY", "KEYS", "VALUE", "MERGE", "NOMUT"})    # the default imputer replaces exactly the asked features by stored values; a copied explainer samples from its own (copied) storage
    depends_on(run, "C14", {"WIRING", "INPUT"})     # the sampled row reaches the model (no answer kept for an earlier row)
    depends_on(run, "C07", {"OBS"})             # the rows sampled from are the storage's current contents
    depends_on(run, "C18", {"E1"})              # the draws come from the global generators, whose state nobody saves / restores
    # ROW clauses of the imputers
    for cls in imputer_classes(prog):
        if cls.name == "MarginalImputer":
            fr = c06.FilterRun(run, {"VALUE", "MERGE"}, {"VALUE": "ROW", "MERGE": "ROW"})
            c06._imputer(fr, prog, cls)
        if cls.name == "TreeImputer":
            _tree_rows(run, prog, cls)


def _original(run, prog, cls, s, fq, roles, fields, chains):
    mf = one(fields, "MODEL", cls)
    _, fn = prog.find_method(cls, "explain_many_original")
    xd = ("param", [a.arg for a in fn.args.args][1])
    found = 0
    for lp, ctx in chains:
        for ev, ectx in walk(lp.body):
            if not (isinstance(ev, ir.Call) and ev.callee == f"self.{mf}"):
                continue
            arg = ev.args[0] if ev.args else None
            if arg is not None and arg[0] == "sub" and arg[1] == xd:
                found += 1
                run.fail("ORIG", fq, f"{s.path}:{ev.line}", fq, f"model evaluated on the data row {ir.show_nl(arg)[:80]} itself",
                         "the model is evaluated on a row object of the data set itself (revealed values are written into it): "
                         "later background draws are no longer rows of the data set")
                continue
            if arg is None or arg[0] != "new" or arg[2] != "dict":
                continue
            base = arg[3][0][1] if arg[3] and arg[3][0][0] == "spread" else None
            if base is None:
                continue
            found += 1
            if not (base[0] == "sub" and base[1] == xd):
                run.fail("ORIG", fq, f"{s.path}:{ev.line}", fq, f"background row {ir.show_nl(base)[:120]}",
                         f"the background row must be a uniformly drawn row of the explained data set; found {ir.show_nl(base)[:160]}")
                continue
            idx = base[2]
            verdict, info = exact_range(idx, ("fn", "len", (xd,)))
            if verdict == "unknown":
                raise AnalysisError(f"{fq}: background index uses an RNG primitive outside the table")
            if verdict is not True:
                carried = [t for t in ir.subterms(idx) if t[0] in ("mu", "eta")]
                extra = " (the bound is a loop-carried value that is overwritten inside the observation loop: from the " \
                        "second observation on only a prefix of the data is sampled)" if carried else ""
                run.fail("ORIG", fq, f"{s.path}:{ev.line}", fq, f"background index {ir.show_nl(idx)[:120]}",
                         f"the background index must be uniform on [0, len(x_data)) for the x_data that is subscripted: "
                         f"{info}{extra}")
                continue
            nest = set(info[5])
            need = {l.lid for l in ectx.loops if not l.comp} | {lp.lid} | {l.lid for l in ctx.loops}
            run.check(need <= nest, "ORIG", fq, f"{s.path}:{ev.line}", fq, "background index not drawn per inner sample",
                      "a fresh background row must be drawn for every inner sample of every chain step",
                      f"x_data[{ir.show_nl(idx)}] drawn per inner sample")
    run.need(found >= 1 or run.findings, f"{fq}: no model evaluation on a merged background row found")


def _tree_rows(run, prog, cls):
    s = prog.summarise(cls, "impute")
    fq = f"{cls.name}.impute"
    n = 0
    for ev, ctx in walk(s.events):
        if isinstance(ev, ir.Draw) and ev.prim in ("random.randint", "random.randrange", "numpy.random.randint",
                                                   "random.choice", "numpy.random.choice"):
            # the draw indexes the data of a leaf reservoir
            d = ev.res
            rows = [t for t in ir.subterms(d) if t[0] == "tget" and t[2] == 0 and t[1][0] == "res" and
                    t[1][2] == ".get_data"]
            if not rows:
                continue
            n += 1
            verdict, info = exact_range(d, ("fn", "len", (rows[0],)))
            run.check(verdict is True, "ROW", f"{cls.name}.leaf-reservoir", f"{s.path}:{ev.line}", fq,
                      f"leaf reservoir index {ir.show_nl(d)[:120]}",
                      f"the row of the leaf reservoir must be uniform on [0, len(reservoir)): {info if verdict is not True else ''}",
                      "uniform index over the routed leaf reservoir")
    run.need(n >= 1 or run.findings, "TreeImputer: no reservoir row draw found")


_B = "ixai/explainer/sage/batch.py"
_I = "ixai/explainer/sage/incremental.py"
_M = "ixai/imputer/marginal_imputer.py"
_PERM = "permutation_chain = [self.feature_names[i]\n                                 for i in np.random.permutation(len(self.feature_names))]"
WITNESSES = [
    ("original mode: loop-carried bound (pre-repair)", [(_B, "x_data[random.randrange(len(x_data))]", "x_data[random.randint(0, n_data - 1)]")]),
    ("original mode: randrange(n_data)", [(_B, "x_data[random.randrange(len(x_data))]", "x_data[random.randrange(n_data)]")]),
    ("original mode: first row", [(_B, "x_data[random.randrange(len(x_data))]", "x_data[0]")]),
    ("incremental: sorted order", [(_I, _PERM, "permutation_chain = sorted(self.feature_names)")]),
    ("incremental: fixed order", [(_I, _PERM, "permutation_chain = list(self.feature_names)")]),
    ("incremental: permutation of a slice", [(_I, "np.random.permutation(len(self.feature_names))]", "np.random.permutation(len(self.feature_names) - 1)]")]),
    ("batch: order drawn once for all observations", [(_B, "        for n, (x_i, y_i) in tqdm(enumerate(zip(x_data, y_data), start=1), total=n_data,\n                                  disable=not verbose):\n            " + _PERM.replace("                                 for", "                                 for") + "\n            loss_previous",
                                                       "        " + _PERM.replace("\n                                 for", "\n                             for") + "\n        for n, (x_i, y_i) in tqdm(enumerate(zip(x_data, y_data), start=1), total=n_data,\n                                  disable=not verbose):\n            loss_previous")]),
    ("marginal: randrange(len - 1)", [(_M, "        rand_idx = random.randrange(len(features))\n        sampled_instance", "        rand_idx = random.randrange(len(features) - 1)\n        sampled_instance")]),
    ("marginal: randint(1, n-1)", [(_M, "        rand_idx = random.randrange(len(features))\n        sampled_instance", "        rand_idx = random.randint(1, len(features) - 1)\n        sampled_instance")]),
    ("marginal: per-feature index under joint", [(_M, "        sampled_features = {feature_name: sampled_instance[feature_name]\n                            for feature_name in feature_subset}",
                                                  "        sampled_features = {feature_name: features[random.randrange(len(features))][feature_name]\n                            for feature_name in feature_subset}")]),
    ("marginal: single index under product", [(_M, "        sampled_features = {}\n        for feature_name in feature_subset:\n            rand_idx = random.randrange(len(features))\n",
                                               "        sampled_features = {}\n        rand_idx = random.randrange(len(features))\n        for feature_name in feature_subset:\n")]),
    ("tree: reservoir index off by one", [("ixai/imputer/tree_imputer.py", "random.randint(0, len(x_storage) - 1)", "random.randint(0, len(x_storage) - 2)")]),
]
SILENT = [
    ("incremental: random.sample", [(_I, _PERM, "permutation_chain = random.sample(self.feature_names, len(self.feature_names))"),
                                    (_I, "import copy\n", "import copy\nimport random\n")]),
    ("original mode: randint(0, len-1)", [(_B, "x_data[random.randrange(len(x_data))]", "x_data[random.randint(0, len(x_data) - 1)]")]),
]
