"""C17 -- a failing callback leaves the explainer's estimates untouched (rule ORDER).

On every path of every explanation entry point (helpers inlined; loops by a fixpoint dataflow over the effect
tree, plus explicit path enumeration with loops taken 0/1 times as a cross-check) no
*commit* (mutation of estimate state) precedes a *fallible* event (call through the model, loss,
imputer or storage field), and no fallible event sits in a try whose handler absorbs the exception.
Roles are inferred from the constructors (validators, annotations, tracker constructors).
"""
from .. import ir
from ..paths import paths, walk, root, order_dataflow
from .common import (explainer_classes, field_roles, estimate_fields, callback_fields, mutating_methods)

META = {
    "explanation": "ORDER: effect-ordering over all structured paths of explain_one/explain_many/"
                   "explain_many_original of every discovered explainer class; commit = store/mutation of an "
                   "estimate field (trackers, marginal_prediction, importance_values) or of an alias of one (only "
                   "deepcopy breaks aliasing for trackers); fallible = call through a MODEL/LOSS/IMPUTER/STORAGE "
                   "field. A commit before a fallible event on any path, or an exception-absorbing try around a "
                   "fallible event, is a violation.",
    "trusted_base": ["trackers do not raise on numeric input", "callbacks do not mutate the explainer themselves"],
    "assumptions": ["exceptions originate in the four callback roles; interpreter errors (MemoryError...) excluded"],
}
META["explanation"] += ' Also: __exit__ methods that can return a true value, user callbacks driven by map / filter / itertools, DEP-C05 acc-init.'
META["explanation"] += ' Round 5: exceptions of the model / storage raised inside the default imputers come out of impute; DEP-C12 FORMULA / NOMUT; DEP-C05 result. HAZARD: constructs that do not mean what they look like, met in the analysed code (defaults evaluated once, class-level containers changed through self, dict.fromkeys with a shared mutable value, late-binding lambdas, truth value of objects that define __len__) are reported by every check.'
META["explanation"] += ' Round 6: the package-wide clauses (finally / __exit__ / lazily driven callbacks) are evaluated first; an __exit__ that runs queued calls does so only when no exception is in flight.'
MIN_INSTANCES = {"ORDER": 6}

ENTRY = ("explain_one", "explain_many", "explain_many_original")
READONLY = {"get", "get_normalized", "__call__", "items", "keys", "values", "copy", "mean", "var", "std",
            "__len__", "__getitem__", "__contains__", "__iter__"}


def classify(ev, est, cb, mutators):
    """'commit' / 'fallible' / None for a leaf event."""
    if isinstance(ev, ir.Call):
        if ev.callee.startswith("self."):
            f = ev.callee[5:]
            if f in cb:
                return "fallible"
            if f in est and ev.method is not None and (ev.method in mutators or ev.method in ir.MUTATORS):
                return "commit"
            return None
        if ev.callee in ("method", "expr") and ev.recv is not None:
            r = _alias_root(ev.recv)
            if r is not None and r[0] == "field0":
                if r[1] in cb:
                    return "fallible"
                if r[1] in est and ev.method is not None and (ev.method in mutators or ev.method in ir.MUTATORS):
                    return "commit"
        if ev.callee.startswith("local:") and ev.recv is not None:
            r = _alias_root(ev.recv)
            if r is not None and r[0] == "field0" and r[1] in cb:
                return "fallible"
        return None
    if isinstance(ev, ir.Mut):
        r = _alias_root(ev.recv)
        if r is not None and r[0] == "field0":
            if r[1] in cb:
                return "fallible"
            if r[1] in est:
                return "commit"
        return None
    if isinstance(ev, ir.Store):
        return "commit" if ev.field in est else None
    if isinstance(ev, (ir.SubStore, ir.Del)):
        r = _alias_root(ev.cont)
        return "commit" if r is not None and r[0] == "field0" and r[1] in est else None
    if isinstance(ev, ir.AttrStore):
        r = _alias_root(ev.obj)
        return "commit" if r is not None and r[0] == "field0" and r[1] in est else None
    return None


def _alias_root(t):
    """Object a receiver aliases: follows access paths, gates (any arm) and *shallow* copies
    (a shallow copy of a tracker shares its per-key state); deepcopy yields a fresh object."""
    seen = 0
    while isinstance(t, tuple) and t and seen < 20:
        seen += 1
        if t[0] in ("sub", "attr", "tget"):
            t = t[1]
        elif t[0] == "gate":
            a, b = _alias_root(t[2]), _alias_root(t[3])
            for x in (a, b):
                if x is not None and x[0] == "field0":
                    return x
            return a
        elif t[0] == "new" and t[2] == "copy" and t[3]:
            t = t[3][0]
        elif t[0] == "res" and t[2].startswith("self.") and t[2].endswith((".get", ".get_normalized")):
            return t
        else:
            return t
    return t


def describe(ev):
    if isinstance(ev, ir.Call):
        return f"{ev.callee}{'.' + ev.method if ev.method else ''}(...)"
    if isinstance(ev, ir.Mut):
        return f"{ir.show_nl(ev.recv)}.{ev.method}(...)"
    if isinstance(ev, ir.Store):
        return f"self.{ev.field} = ..."
    if isinstance(ev, ir.SubStore):
        return f"{ir.show_nl(ev.cont)}[...] = ..."
    return type(ev).__name__


def _package_scans(run, prog):
    """Package-wide syntactic clauses (finally blocks, __exit__ methods, lazily driven callbacks): evaluated first, so that
    what they find stands even when the per-class analysis below cannot decide."""
    import ast
    # a `return` / `break` / `continue` inside a `finally` block discards the exception in flight: a failing
    # callback (or metric, model, storage) would then look like a normal return and the observation is committed
    import ast
    n_finally = 0
    swallowed = []
    for path, text in sorted(prog.files.items()):
        if "/visualization/" in path:
            continue
        for node in ast.walk(ast.parse(text)):
            if isinstance(node, ast.Try) and node.finalbody:
                n_finally += 1
                todo = list(node.finalbody)
                while todo:
                    n = todo.pop()
                    if isinstance(n, (ast.FunctionDef, ast.AsyncFunctionDef, ast.Lambda, ast.ClassDef)):
                        continue
                    if isinstance(n, ast.Return) or (isinstance(n, (ast.Break, ast.Continue)) and True):
                        swallowed.append((path, n.lineno, type(n).__name__.lower()))
                        continue
                    if isinstance(n, (ast.For, ast.While)):
                        # break / continue of a loop inside the finally block stay inside it; returns do not
                        todo.extend(x for b in n.body + n.orelse for x in ast.walk(b) if isinstance(x, ast.Return))
                        continue
                    todo.extend(ast.iter_child_nodes(n))
    for path, line, kind in swallowed:
        run.fail("PROPAGATE", f"{path}:finally", f"{path}:{line}", path, f"`{kind}` inside a finally block",
                 f"a `{kind}` in a `finally` block silently discards any exception raised in the protected block: "
                 f"a failing callback is turned into a normal result and the caller goes on to commit the observation")
    if not swallowed:
        run.ok("PROPAGATE", "package.finally", f"{n_finally} finally blocks: none returns / breaks / continues")
    # a context manager whose __exit__ returns a true value suppresses whatever was raised inside the `with` block
    n_exit, truthy = 0, []
    for path, text in sorted(prog.files.items()):
        if "/visualization/" in path:
            continue
        for node in ast.walk(ast.parse(text)):
            if isinstance(node, ast.FunctionDef) and node.name == "__exit__":
                n_exit += 1
                for r in ast.walk(node):
                    if isinstance(r, ast.Return) and r.value is not None and not (
                            isinstance(r.value, ast.Constant) and r.value.value in (None, False)):
                        truthy.append((path, r.lineno, ast.unparse(r.value)[:60]))
    for path, line, what in truthy:
        run.fail("PROPAGATE", f"{path}:__exit__", f"{path}:{line}", path, f"__exit__ returns {what}",
                 f"__exit__ returns `{what}`: whenever that value is true the exception raised inside the `with` block is "
                 f"suppressed -- a failing model / loss / imputer call then looks like a normal exit and the explainer goes on to "
                 f"commit a half-computed observation")
    if not truthy:
        run.ok("PROPAGATE", "package.__exit__", f"{n_exit} __exit__ methods: none can return a true value")
    # a context manager that carries out work it was handed (queued callables: "commit when the block is left") must do
    # so only when the block ended normally: run while an exception is in flight, the queued updates are applied for an
    # observation whose evaluation has failed.  (The engine follows `with` on such a class along the normal exit only.)
    n_run, eager = 0, []
    for path, text in sorted(prog.files.items()):
        if "/visualization/" in path:
            continue
        tree = ast.parse(text)
        for node in ast.walk(tree):
            if not (isinstance(node, ast.FunctionDef) and node.name == "__exit__" and len(node.args.args) >= 2):
                continue
            me, exc = node.args.args[0].arg, {a.arg for a in node.args.args[1:]}
            parents = {}
            for x in ast.walk(node):
                for ch in ast.iter_child_nodes(x):
                    parents[ch] = x
            for loop in ast.walk(node):
                if not isinstance(loop, (ast.For, ast.While)):
                    continue
                held = any(isinstance(x, ast.Attribute) and isinstance(x.value, ast.Name) and x.value.id == me
                           for x in ast.walk(loop.iter if isinstance(loop, ast.For) else loop.test))
                targets = {x.id for x in ast.walk(loop.target) if isinstance(x, ast.Name)} if isinstance(loop, ast.For) else set()
                calls = [c for b in loop.body for c in ast.walk(b) if isinstance(c, ast.Call) and (
                    (isinstance(c.func, ast.Name) and (c.func.id in targets or isinstance(loop, ast.While))) or
                    (isinstance(c.func, ast.Subscript) and isinstance(c.func.value, ast.Name) and c.func.value.id in targets))]
                if not (held and calls):
                    continue
                n_run += 1
                guarded, x = False, loop
                while x in parents and x is not node:
                    par = parents[x]
                    if isinstance(par, ast.If) and x in par.body and any(isinstance(t, ast.Name) and t.id in exc for t in ast.walk(par.test)):
                        guarded = True
                    x = par
                # an early `if exc_type is not None: return ...` before the loop also guards it
                for st in node.body:
                    if st is loop or any(d is loop for d in ast.walk(st)):
                        break
                    if isinstance(st, ast.If) and any(isinstance(t, ast.Name) and t.id in exc for t in ast.walk(st.test)) and \
                            st.body and isinstance(st.body[-1], (ast.Return, ast.Raise)):
                        guarded = True
                if not guarded:
                    eager.append((path, loop.lineno))
    for path, line in eager:
        run.fail("PROPAGATE", f"{path}:__exit__.runs-queue", f"{path}:{line}", path, "__exit__ runs queued calls unconditionally",
                 "__exit__ carries out the calls that were queued inside the `with` block without looking at the exception it "
                 "was handed: when a model / loss / imputer call has failed, the updates queued before it are applied all the same")
    if not eager:
        run.ok("PROPAGATE", "package.__exit__.queue", f"{n_run} __exit__ methods run queued calls, all only when no exception is in flight")
    # a callback driven by a lazy iterator tool: StopIteration raised by the callback is read as the end of the data
    lazy, n_lazy = [], 0
    LAZY = {"map", "filter", "itertools.starmap", "starmap", "itertools.takewhile", "takewhile", "itertools.dropwhile", "dropwhile",
            "itertools.accumulate", "accumulate", "itertools.filterfalse", "filterfalse"}
    for path, text in sorted(prog.files.items()):
        if "/visualization/" in path:
            continue
        for node in ast.walk(ast.parse(text)):
            if isinstance(node, ast.Call) and ast.unparse(node.func) in LAZY and node.args:
                n_lazy += 1
                f = node.args[0]
                if ast.unparse(node.func) in ("itertools.accumulate", "accumulate"):
                    f = node.args[1] if len(node.args) > 1 else next((k.value for k in node.keywords if k.arg == "func"), None)
                if f is None:
                    continue
                holder = f.attr if isinstance(f, ast.Attribute) and isinstance(f.value, ast.Name) and f.value.id == "self" else None
                if holder is None and isinstance(f, ast.Lambda):
                    # a lambda that calls the callback (or a method of the imputer / storage object kept in a field)
                    for c in ast.walk(f.body):
                        if isinstance(c, ast.Call):
                            g = c.func
                            while isinstance(g, ast.Attribute) and not (isinstance(g.value, ast.Name) and g.value.id == "self"):
                                g = g.value
                            if isinstance(g, ast.Attribute) and isinstance(g.value, ast.Name) and g.value.id == "self":
                                holder = holder or g.attr
                if holder is not None and any(w in holder for w in ("model", "loss", "function", "imputer", "predict")):
                    lazy.append((path, node.lineno, ast.unparse(node)[:70], holder))
    for path, line, what, holder in lazy:
        run.fail("PROPAGATE", f"{path}:lazy-callback", f"{path}:{line}", path, what,
                 f"the user's callback self.{holder} is driven by `{what.split('(')[0]}`: a StopIteration raised inside the "
                 f"callback is taken by the consumer of that iterator as the end of the data, so the failure is swallowed, fewer "
                 f"values than asked for come back and the explanation is committed")
    if not lazy:
        run.ok("PROPAGATE", "package.lazy-callbacks", f"{n_lazy} map / filter / itertools calls: none drives a user callback")


def check(run):
    prog = run.prog
    _package_scans(run, prog)
    classes = explainer_classes(prog)
    run.need(len(classes) >= 4, f"only {len(classes)} explainer classes discovered (expected >= 4)")
    mutators = mutating_methods(prog, "TRACKER")
    n_fallible = 0
    for cls in classes:
        roles = field_roles(prog, cls)
        est = estimate_fields(prog, cls, roles)
        cb = callback_fields(roles)
        run.need(est, f"no estimate state inferred for {cls.name}")
        run.need(len(cb) >= 3, f"callback roles of {cls.name} incomplete: {sorted(cb)}")
        for method in ENTRY:
            owner, fn = prog.find_method(cls, method)
            if fn is None:
                continue
            s = prog.summarise(cls, method)
            fq = f"{cls.name}.{method}"
            run.analysed_fn(fq)
            try:
                ps = paths(s.events, unroll=1, limit=5000)
            except ir.Unsupported as e:         # nested explicit loops: the fixpoint dataflow below decides alone
                ps = []
                run.notes.setdefault("path_enumeration_skipped", []).append(f"{fq}: {e}")
            run.analysed["paths"] += len(ps)
            found = {}
            fall_sites = set()
            for p in ps:
                committed = None
                for ev in p.events:
                    k = classify(ev, est, cb, mutators)
                    if k == "fallible":
                        fall_sites.add(id(ev))
                        if committed is not None:
                            key = (id(committed), id(ev))
                            found.setdefault(key, (committed, ev))
                    elif k == "commit" and committed is None:
                        committed = ev
            fall_sites |= {id(e) for e, _ in walk(s.events) if classify(e, est, cb, mutators) == "fallible"}
            # fixpoint dataflow over the effect tree (all loop iteration counts); must agree with the paths
            for committed, ev in order_dataflow(s.events, lambda e: classify(e, est, cb, mutators)):
                found.setdefault((id(committed), id(ev)), (committed, ev))
            n_fallible += len(fall_sites)
            run.analysed["call_sites"] += len(fall_sites)
            if not found:
                run.ok("ORDER", fq, f"{len(ps)} paths + fixpoint dataflow, {len(fall_sites)} fallible call sites, no commit precedes any")
            for committed, ev in found.values():
                construct = f"commit {run.stmt_text(s.path, committed.line) or describe(committed)} precedes " \
                            f"{describe(ev)}"
                run.fail("ORDER", fq, f"{s.path}:{committed.line}", fq, construct,
                         f"estimate state is modified at line {committed.line} ({describe(committed)}) before the "
                         f"fallible call {describe(ev)} at line {ev.line}: an exception there leaves a half-applied "
                         f"observation")
            # exception absorption
            for ev, ctx in walk(s.events, structural=True):
                if isinstance(ev, ir.Try):
                    body_fallible = [e for e, _ in walk(ev.body) if classify(e, est, cb, mutators) == "fallible"]
                    if not body_fallible:
                        continue
                    for h in ev.handlers:
                        reraises = bool(h.body) and isinstance(h.body[-1], ir.Raise)
                        run.check(reraises, "PROPAGATE", f"{fq}:try", f"{s.path}:{h.line}", fq,
                                  f"handler {'/'.join(h.exc)} absorbs {describe(body_fallible[0])}",
                                  f"an exception of {describe(body_fallible[0])} is caught by "
                                  f"`except {'/'.join(h.exc)}` and not re-raised", "handler re-raises")
    # the imputers the explainers build by default stand between the explainer and two of its callbacks (model,
    # storage): an exception they raise inside impute must come out of impute
    for name in ("MarginalImputer", "DefaultImputer"):
        K = prog.find_class(name)
        if K is None or prog.find_method(K, "impute")[1] is None:
            continue
        try:
            # the objects handed to the constructor (model function, storage) are the user's: calls on them can fail
            cbi = {f for f, t in prog.summarise(K, "__init__").fields.items()
                   if any(x[0] == "param" for x in ir.subterms(t)) and "." not in f}
            cbi |= callback_fields(field_roles(prog, K))
            si = prog.summarise(K, "impute")
        except ir.Unsupported:
            continue
        fqi = f"{name}.impute"
        run.analysed_fn(fqi)

        def user_call(e):
            return isinstance(e, ir.Call) and isinstance(e.callee, str) and e.callee.startswith("self.") and \
                e.callee[5:].split(".")[0] in cbi
        for ev, ctx in walk(si.events, structural=True):
            if isinstance(ev, ir.Try):
                inside = [e for e, _ in walk(ev.body) if user_call(e)]
                if not inside:
                    continue
                for h in ev.handlers:
                    reraises = bool(h.body) and isinstance(h.body[-1], ir.Raise)
                    run.check(reraises, "PROPAGATE", f"{fqi}:try", f"{si.path}:{h.line}", fqi,
                              f"handler {'/'.join(h.exc)} absorbs {describe(inside[0])}",
                              f"an exception of {describe(inside[0])} inside the imputer is caught by "
                              f"`except {'/'.join(h.exc)}` and not re-raised: the explainer goes on as if the callback had "
                              f"answered", "handler re-raises")
    from .c06 import depends_on
    depends_on(run, "C12", {"FORMULA", "NOMUT"}, only=lambda rule, inst: inst.startswith(("N1", "G", "getters", "nomut")) or True)  # reading a tracker (get / get_normalized) writes nothing the caller holds
    depends_on(run, "C05", {"AVERAGE"}, only=lambda rule, inst: "acc-init" in inst or inst.endswith(".result"))     # accumulators of a run are not the published estimate
    run.need(n_fallible >= 12, f"only {n_fallible} fallible call sites found (confirmed minimum 12)")
    run.notes["fallible_call_sites"] = n_fallible


WITNESSES = [
    ("sage: model-loss tracker updated before the chain", [
        ("ixai/explainer/sage/incremental.py",
         "            model_loss = self._loss_function(y_i, y_i_pred)\n",
         "            model_loss = self._loss_function(y_i, y_i_pred)\n            self._model_loss_tracker.update(model_loss)\n")]),
    ("sage: prediction tracker updated in place (no deepcopy)", [
        ("ixai/explainer/sage/incremental.py",
         "marginal_prediction_tracker = copy.deepcopy(self._marginal_prediction_tracker)",
         "marginal_prediction_tracker = self._marginal_prediction_tracker")]),
    ("sage: shallow copy of the prediction tracker", [
        ("ixai/explainer/sage/incremental.py",
         "marginal_prediction_tracker = copy.deepcopy(self._marginal_prediction_tracker)",
         "marginal_prediction_tracker = copy.copy(self._marginal_prediction_tracker)")]),
    ("pfi: importance committed inside the feature loop", [
        ("ixai/explainer/pfi.py",
         "                pfi[feature] = avg_loss - original_loss\n",
         "                pfi[feature] = avg_loss - original_loss\n                self._importance_trackers.update({feature: pfi[feature]})\n")]),
    ("pfi: commit before the storage update (pre-repair order)", [
        ("ixai/explainer/pfi.py",
         "        if update_storage:\n            self._storage.update(x_i, y_i)\n        if explain:",
         "        if explain:"),
        ("ixai/explainer/pfi.py",
         "        self.seen_samples += 1\n        return",
         "        self.seen_samples += 1\n        if update_storage:\n            self._storage.update(x_i, y_i)\n        return")]),
    ("batch: importance_values written inside the loop", [
        ("ixai/explainer/sage/batch.py",
         "                sage_values[feature] += marginal_contribution\n                loss_previous = feature_loss\n            n_data = n\n        self.importance_values = {feature: sage_value / n_data\n                                  for feature, sage_value in sage_values.items()}\n        return self.importance_values\n\n    def explain_many_original",
         "                sage_values[feature] += marginal_contribution\n                self.importance_values[feature] = sage_values[feature] / n\n                loss_previous = feature_loss\n            n_data = n\n        return self.importance_values\n\n    def explain_many_original")]),
    ("sage: imputer exception swallowed", [
        ("ixai/explainer/sage/incremental.py",
         "                predictions = self._imputer.impute(\n                    feature_subset=features_not_in_s,\n                    x_i=x_i,\n                    n_samples=n_inner_samples\n                )\n",
         "                try:\n                    predictions = self._imputer.impute(\n                        feature_subset=features_not_in_s,\n                        x_i=x_i,\n                        n_samples=n_inner_samples\n                    )\n                except Exception:\n                    predictions = [y_i_pred]\n")]),
]
SILENT = [
    ("sage: rename locals", [
        ("ixai/explainer/sage/incremental.py", " marginal_prediction_tracker", " mp_tracker", "all"),
    ]),
    ("pfi: count the sample before committing", [
        ("ixai/explainer/pfi.py",
         "            self._variance_trackers.update(variances)\n        self.seen_samples += 1\n",
         "            self._variance_trackers.update(variances)\n        self.seen_samples = self.seen_samples + 1\n")]),
]
