"""Shared analysis of BaseImputer.impute implementations (C06, C04, C19)."""
import ast

from .. import ir
from ..paths import walk, root, strip_gates
from ..report import AnalysisError
from .common import base_class, dict_build, list_build


def imputer_classes(prog):
    out = []
    for c in prog.subclasses(base_class(prog, "IMPUTER"), strict=True):
        owner, fn = prog.find_method(c, "impute")
        if fn is None or c.name.startswith("_"):
            continue            # private intermediate bases are analysed through their public subclasses
        body = [n for n in fn.body if not (isinstance(n, ast.Expr) and isinstance(n.value, ast.Constant))]
        if len(body) == 1 and isinstance(body[0], ast.Raise):
            continue
        out.append(c)
    return out


def impute_params(prog, cls):
    _, fn = prog.find_method(cls, "impute")
    names = [a.arg for a in fn.args.args][1:]
    if len(names) < 3:
        raise AnalysisError(f"{cls.name}.impute does not take (feature_subset, x_i, n_samples)")
    return ("param", names[0]), ("param", names[1]), ("param", names[2])


def model_field(prog, cls):
    """Field holding the model callback of an imputer (assigned from validate_model_function)."""
    s = prog.summarise(cls, "__init__")
    for f, t in s.fields.items():
        for alt in strip_gates(t):
            if alt[0] == "res" and alt[2].endswith("validate_model_function"):
                return f
    raise AnalysisError(f"{cls.name}: no field assigned from validate_model_function")


def is_copy_of(t, base):
    if t == base:
        return True
    if t[0] == "new" and t[2] in ("copy", "deepcopy") and t[3] and t[3][0] == base:
        return True
    if t[0] == "new" and t[2] == "dict" and t[3] in ((base,), (("spread", base),)):
        return True
    return False


def merge_form(arg, events):
    """(base, overlay) if the term is the dict merge `base overlaid by overlay`, else None.
    Accepted idioms: {**a, **b}; dict(a, **b); a | b; c = copy-of-a followed by c.update(b)."""
    if arg[0] == "new" and arg[2] == "dict":
        items = arg[3]
        if len(items) == 2 and items[0][0] == "spread" and items[1][0] == "spread":
            return items[0][1], items[1][1]
        if len(items) == 2 and items[0][0] not in ("spread", "kv", "kw") and items[1][0] == "kw" and items[1][1] == "**":
            return items[0], items[1][2]
        if len(items) == 1 and (items[0][0] == "spread" or items[0][0] not in ("kv", "kw")):
            base = items[0][1] if items[0][0] == "spread" else items[0]
            ups = [ev for ev, _ in walk(events) if isinstance(ev, ir.Mut) and ev.recv == arg and ev.method == "update"]
            if len(ups) == 1 and len(ups[0].args) == 1:
                return base, ups[0].args[0]
    if arg[0] == "new" and arg[2] == "copy" and arg[3]:
        ups = [ev for ev, _ in walk(events) if isinstance(ev, ir.Mut) and ev.recv == arg and ev.method == "update"]
        if len(ups) == 1 and len(ups[0].args) == 1:
            return arg[3][0], ups[0].args[0]
    if arg[0] == "op" and arg[1] == "|":
        return arg[2], arg[3]
    return None


def subset_iter(t, subset):
    """Does the iterable term enumerate exactly the requested subset, in its own order?
    'same' / 'reordered' (sorted(...): needs comparable names) / None."""
    if t == subset:
        return "same"
    if t[0] == "new" and t[2] in ("list", "tuple", "set", "frozenset") and t[3] == (subset,):
        return "same"
    if t[0] == "fn" and t[1] in ("tuple", "iter", "frozenset") and t[2] == (subset,):
        return "same"
    if t[0] == "fn" and t[1] in ("sorted", "reversed") and t[2] and t[2][0] == subset:
        return "reordered" if t[1] == "sorted" else "same"
    return None


def protected_mutations(events, protected):
    """Events that mutate an object whose access-path root is one of the protected terms."""
    out = []
    for ev, ctx in walk(events):
        tgt = None
        if isinstance(ev, ir.Mut):
            tgt = ev.recv
        elif isinstance(ev, (ir.SubStore, ir.Del)):
            tgt = ev.cont
        elif isinstance(ev, ir.AttrStore):
            tgt = ev.obj
        elif isinstance(ev, ir.Call) and ev.method in ir.MUTATORS and ev.recv is not None and ev.callee == "method":
            tgt = ev.recv
        if tgt is None:
            continue
        r = root(tgt)
        for alt in strip_gates(r):
            if alt in protected:
                out.append((ev, ctx, alt))
                break
    return out
