"""C10 -- Welford / exponential-smoothing trackers equal their closed forms (rule INDUCT).

The summaries of the shipped `__init__`, `update` and getter bodies are composed symbolically and
compared, in the exact rational-function domain, with the closed forms written in raw moments:
  Welford after n+1 values:  mean = S'/n', var = Q'/n' - (S'/n')^2, std = sqrt(var), count = n'
  smoothing:                 get' = (1-alpha)*get + alpha*v, count' = count + 1, get(init) = 0
(base case: first update from the constructor state; step: n >= 1 symbolic).
"""
from .. import ir
from ..poly import OutOfDomain
from ..report import AnalysisError
from .algebra import identical, resolve_minmax, defined_value
from .common import substitute, fold_minmax, const_value, guard_conditions, bounds_from
from ..paths import walk

META = {
    "explanation": "INDUCT: the effect summaries of WelfordTracker/ExponentialSmoothingTracker __init__, update and "
                   "every getter are composed symbolically (gated value graph) and compared with the closed forms "
                   "in an exact rational-function normal form with case splits on branches; base case from the "
                   "constructor state plus inductive step for symbolic n>=1, S, Q, v, alpha. No code is executed.",
    "trusted_base": ["real arithmetic (floating point is C20)", "Python attribute/augmented-assignment semantics",
                     "max/min/sqrt/** semantics of the standard library"],
    "assumptions": ["values are real numbers; rounding is out of scope here (see C20)"],
}
META["explanation"] += ' Also COPY, partial / external writes of tracker state, derived constants next to a public parameter, iterables walked twice, process-wide NumPy error mode; the parts of the Welford state are identified by use; INPUT: no state field is the input object itself.'
META["explanation"] += ' HAZARD: constructs that do not mean what they look like, met in the analysed code (defaults evaluated once, class-level containers changed through self, dict.fromkeys with a shared mutable value, late-binding lambdas, truth value of objects that define __len__) are reported by every check.'
MIN_INSTANCES = {"INDUCT": 12, "COUNT": 2, "RANGE": 1, "COPY": 2}

P = lambda s: ("param", s)
N_, S_, Q_, V_ = P("#n"), P("#S"), P("#Q"), P("#v")
ATOMS = {N_: "n", S_: "S", Q_: "Q", V_: "v"}


def op(o, a, b):
    return ("op", o, a, b)


def c(v):
    return ("const", v)


def _param(prog, cls, method):
    _, fn = prog.find_method(cls, method)
    names = [a.arg for a in fn.args.args][1:]
    if not names:
        raise AnalysisError(f"{cls.name}.{method} takes no value parameter")
    return ("param", names[0])


def _getter(prog, cls, name):
    """Summary return term of an observable: property, method or plain field."""
    owner, fn = prog.find_method(cls, name)
    if fn is None:
        return ("field0", name), None
    s = prog.summarise(cls, name)
    return s.ret, s


def _compose(getter_ret, post_fields):
    """Getter applied to the post-state: substitute field0 F by the post term of F."""
    mapping = {("field0", f): t for f, t in post_fields.items()}
    return substitute(getter_ret, mapping)


def _fields_read(t):
    return {s[1] for s in ir.subterms(t) if s[0] == "field0"}


def check(run):
    _check_own(run)
    from .common import numeric_mode, single_pass
    _own_writes(run, run.prog)
    numeric_mode(run, run.prog, "RANGE")
    single_pass(run, run.prog, [c for c in run.prog.all_classes() if c.module.name.startswith("ixai.utils.tracker")], "COUNT")
    # COPY: a copied tracker carries its count, its mean and its second moment
    from .copylib import copy_protocol
    prog = run.prog
    for cls in [prog.find_class("WelfordTracker"), prog.find_class("ExponentialSmoothingTracker")]:
        if cls is not None:
            copy_protocol(run, prog, cls)


def _own_writes(run, prog):
    """The parts of a tracker's state move together and only inside the tracker: (a) a method of the tracker (other than
    the constructor and update) that assigns some of {count, value, second moment} assigns all of them -- a reset that
    forgets the accumulated squares leaves a variance belonging to another stream; (b) no code outside a tracker assigns
    another object's count / value / accumulator (a decay applied from outside is not counted as an update)."""
    import ast
    from .common import welford_roles
    from .copylib import HOOKS
    W = prog.find_class("WelfordTracker")
    E = prog.find_class("ExponentialSmoothingTracker")
    wr = welford_roles(prog, W)
    parts = {W.qual: [wr["N"], wr["tracked_value"], wr["sum_squares"]], E.qual: ["N", "tracked_value"]}
    n = 0
    for cls in (W, E):
        for k in prog.mro(cls):
            for mname, fn in k.methods.items():
                if mname in ("__init__", "update") or mname in HOOKS or "." in mname or prog.find_method(cls, mname)[1] is not fn:
                    continue
                if mname.startswith("_") and not mname.startswith("__"):
                    continue                    # a private helper is judged through the public methods that call it
                if not any(isinstance(x, ast.Attribute) and isinstance(x.ctx, ast.Store) for x in ast.walk(fn)):
                    continue
                try:
                    s = prog.summarise(cls, mname)
                except ir.Unsupported:
                    continue
                written = [p for p in parts[cls.qual] if s.fields.get(p, ("field0", p)) != ("field0", p)]
                if written and len(written) < len(parts[cls.qual]):
                    missing = [p for p in parts[cls.qual] if p not in written]
                    n += 1
                    run.fail("COUNT", f"{cls.name}.{mname}.partial", f"{s.path}:{s.fn.lineno}", f"{cls.name}.{mname}",
                             f"{mname} assigns {written} and leaves {missing}",
                             f"{cls.name}.{mname} (defined in {k.name}) assigns {written} but not {missing}: the parts of the "
                             f"tracker's state no longer describe the same stream (after a reset the mean and the count start "
                             f"over while `{missing[0]}` still carries the old stream)")
    names = set(parts[W.qual]) | set(parts[E.qual])
    tracker_mods = {c.module.name for c in (W, E)} | {prog.find_class("Tracker").module.name if prog.find_class("Tracker") else ""}
    methods = {id(f) for c in prog.all_classes() for f in c.methods.values()
               if not any(ast.unparse(d) == "staticmethod" for d in f.decorator_list)}
    for m in prog.modules.values():
        parents = {}
        for node in ast.walk(m.tree):
            for ch in ast.iter_child_nodes(node):
                parents[ch] = node
        for x in ast.walk(m.tree):
            if not (isinstance(x, ast.Attribute) and isinstance(x.ctx, ast.Store) and x.attr in names and
                    isinstance(x.value, (ast.Name, ast.Subscript, ast.Attribute))):
                continue
            fn = parents.get(x)
            while fn is not None and not isinstance(fn, ast.FunctionDef):
                fn = parents.get(fn)
            if fn is None or fn.name in HOOKS:
                continue                # class / module level, or a copy hook filling the object it builds
            me = fn.args.args[0].arg if fn.args.args and (id(fn) in methods or fn.args.args[0].arg == "self") else None
            if isinstance(x.value, ast.Name) and x.value.id == me:
                continue
            n += 1
            run.fail("COUNT", f"external-write:{m.name}.{fn.name}", f"{m.path}:{x.lineno}", f"{m.name}.{fn.name}",
                     f"{ast.unparse(x)} assigned outside the tracker",
                     f"`{ast.unparse(x)}` is assigned by {fn.name} in {m.name}: a tracker's {x.attr} changes without its "
                     f"update() running, so its update count and its value no longer belong to the same number of "
                     f"observations")
    if not n:
        run.ok("COUNT", "own-writes", "tracker state is assigned only by the tracker's constructor and update, all parts together")


def _check_own(run):
    prog = run.prog
    W = prog.find_class("WelfordTracker")
    E = prog.find_class("ExponentialSmoothingTracker")
    run.need(W is not None and E is not None, "anchor classes WelfordTracker / ExponentialSmoothingTracker vanished")
    _welford(run, prog, W)
    _smoothing(run, prog, E)
    _no_input_kept(run, prog, (W, E))
    from .common import ctor_wiring
    ctor_wiring(run, prog, E, "CTOR")               # the smoothing parameter as configured


def _no_input_kept(run, prog, classes):
    """INPUT: no part of the state is the caller's value itself.  The recurrences are written for floats: every stored
    quantity must be the result of arithmetic on the input (which converts NumPy fixed-width integers to floats by the
    division / the multiplication with a float), never the input object -- a state that *is* the first np.uint8 makes
    the next `value - state` wrap around, and an array handed in and kept is changed by the later in-place updates."""
    for K in classes:
        upd = prog.summarise(K, "update")
        v = _param(prog, K, "update")
        bad = []
        for f, t in upd.fields.items():
            leaves = [t]
            while any(x[0] == "gate" for x in leaves):
                leaves = [y for x in leaves for y in ((x[2], x[3]) if x[0] == "gate" else (x,))]
            if v in leaves:
                bad.append(f)
        run.check(not bad, "INPUT", f"{K.name}.state", f"{upd.path}:{upd.fn.lineno}", f"{K.name}.update",
                  f"state fields set to the input itself: {bad}",
                  f"{K.name}.update stores the input object itself in {', '.join('self.' + b for b in bad)} on some path: the "
                  f"tracked state then has the input's type (a NumPy fixed-width integer wraps around in the next "
                  f"difference, an array is aliased and later changed in place) instead of being a float computed from it",
                  "every state field is an arithmetic result, never the input object")


# ------------------------------------------------------------------------------------------------
def _welford(run, prog, W):
    init = prog.summarise(W, "__init__")
    upd = prog.summarise(W, "update")
    run.analysed_fn(f"{W.name}.__init__")
    run.analysed_fn(f"{W.name}.update")
    v = _param(prog, W, "update")
    # the three parts of the state are found by what the code does with them; the rest of the rule speaks of them
    # under their conventional names
    from .common import welford_roles
    actual = welford_roles(prog, W)
    canon = {a: c_ for c_, a in actual.items()}
    ren = {("field0", a): ("field0", c_) for c_, a in actual.items() if a != c_}
    init_state = {canon.get(f, f): substitute(t, ren) for f, t in init.fields.items()}
    for f in ("N", "tracked_value", "sum_squares"):
        run.need(f in init_state, f"WelfordTracker state field {actual[f]} is not initialised by the constructor chain")
    post = {canon.get(f, f): substitute(substitute(t, {v: V_}), ren) for f, t in upd.fields.items()}
    path, fn = upd.path, "WelfordTracker.update"
    line = upd.fn.lineno

    observables = {"mean": "mean", "var": "var", "std": "std", "get": "get", "__call__": "get", "N": "count"}
    getters = {}
    base_fields_ = {"N", "tracked_value", "sum_squares"}
    stale = set()
    for name in observables:
        ret, s = _getter(prog, W, name)
        if name == "N" and s is None:
            ret = ("field0", actual["N"])           # the update count is read as a plain attribute
        ret = substitute(ret, ren)
        getters[name] = ret
        run.analysed_fn(f"{W.name}.{name}")
        # a getter that stores what it computes and returns the stored value while a validity test holds: the
        # test must cover every field the stored value is computed from (here N changes on every update)
        if s is not None:
            from ..paths import walk as _walk
            for ev, ctx in _walk(s.events):
                if isinstance(ev, ir.Store) and ("field0", ev.field) in ir.subterms(ret) and ev.field not in base_fields_:
                    deps = {t[1] for t in ir.subterms(ev.value) if t[0] == "field0"} & base_fields_
                    tested = {t[1] for g in ctx.guards for t in ir.subterms(g) if t[0] == "field0"} & base_fields_
                    missing = sorted(deps - tested)
                    if missing:
                        stale.add(name)
                        run.fail("INDUCT", f"Welford.step.{name}", f"{s.path}:{ev.line}", f"{W.name}.{name}",
                                 f"{name} caches self.{ev.field} = {ir.show_nl(ev.value)[:80]}",
                                 f"{name} returns a stored value that is recomputed only when {sorted(tested)} changed, but "
                                 f"it is computed from {sorted(deps)}: after an update that changes {missing} alone the "
                                 f"old value is returned")

    # reference closed forms (terms over n, S, Q, v)
    def refs(n, S, Q):
        mean = op("/", S, n)
        var = op("-", op("/", Q, n), op("*", mean, mean))
        return {"mean": mean, "var": var, "std": ("fn", "sqrt", (var,)), "get": mean, "count": n}

    base_fields = {"N", "tracked_value", "sum_squares"}
    # ---- inductive step, n >= 1 -------------------------------------------------------------
    pre_ref = refs(N_, S_, Q_)
    pre = {("field0", "N"): N_, ("field0", "tracked_value"): op("/", S_, N_),
           ("field0", "sum_squares"): op("-", Q_, op("/", op("*", S_, S_), N_))}
    # derived (cached) fields: a getter that returns a bare field carries the induction hypothesis
    for name, ret in getters.items():
        if ret[0] == "field0" and ret[1] not in base_fields:
            pre[ret] = pre_ref[observables[name]]
    post_ref = refs(op("+", N_, c(1)), op("+", S_, V_), op("+", Q_, op("*", V_, V_)))
    for name, kind in observables.items():
        if name in stale:
            continue
        cand = _compose(getters[name], {f: post.get(f, ("field0", f)) for f in _fields_read(getters[name]) | set(post)})
        cand = substitute(cand, pre)
        unknown = _fields_read(cand)
        memo = sorted(f for f in unknown if f.startswith("#memo:"))
        if memo:
            run.fail("INDUCT", f"Welford.step.{name}", f"{path}:{line}", fn, f"{name} goes through the memoised {memo[0][6:]}",
                     f"after update at n>=1, {name} must equal the closed form of {kind}; `{memo[0][6:]}` is memoised "
                     f"(cached_property / lru_cache): once read it keeps returning the value of that moment, whatever "
                     f"is observed afterwards")
            continue
        if unknown:
            raise AnalysisError(f"WelfordTracker.{name} reads state outside the analysed schema: {sorted(unknown)}")
        cand = resolve_minmax(cand, N_, 1)
        _compare(run, "INDUCT", f"Welford.step.{name}", cand, post_ref[kind], path, line, fn,
                 f"after update at n>=1, {name} must equal the closed form of {kind}", bounds={N_: 1})
    # ---- base case: first update from the constructor state ----------------------------------
    init_map = {("field0", f): t for f, t in init_state.items()}
    one_ref = refs(c(1), V_, op("*", V_, V_))
    for name, kind in observables.items():
        cand = _compose(getters[name], {f: post.get(f, ("field0", f)) for f in _fields_read(getters[name]) | set(post)})
        cand = substitute(cand, init_map)
        unknown = _fields_read(cand)
        if any(f.startswith("#memo:") for f in unknown):
            continue                    # memoised getter: already reported by the step case
        if unknown:
            raise AnalysisError(f"WelfordTracker.{name} reads uninitialised state: {sorted(unknown)}")
        cand = fold_minmax(cand)
        _compare(run, "INDUCT", f"Welford.base.{name}", cand, one_ref[kind], path, line, fn,
                 f"after the first update, {name} must equal the closed form of {kind} for one value")
    # ---- empty tracker: getters are defined (no division by zero) ----------------------------
    for name in ("var", "std", "mean"):
        cand = fold_minmax(substitute(getters[name], init_map))
        val = defined_value(cand)
        run.check(val is not None, "INDUCT", f"Welford.empty.{name}", f"{path}:{line}", f"WelfordTracker.{name}",
                  f"empty:{ir.show_nl(cand)}", f"{name} of an empty tracker is undefined: {ir.show_nl(cand)}",
                  f"{name}(empty) = {ir.show_nl(cand)}")
    # ---- COUNT: exactly one increment per update path ----------------------------------------
    cand = substitute(post.get("N", ("field0", "N")), {("field0", "N"): N_})
    _compare(run, "COUNT", "Welford.N", cand, op("+", N_, c(1)), path, line, fn, "N must grow by exactly one per update")


def _compare(run, rule, inst, cand, ref, path, line, fn, msg, bounds=None):
    try:
        ok, info = identical(cand, ref, atoms=ATOMS, bounds=bounds)
    except OutOfDomain as e:
        if "zero polynomial" in str(e):
            run.fail(rule, inst, f"{path}:{line}", fn, f"{inst}: division by zero",
                     f"{msg}; the value divides by an expression that is identically zero here ({ir.show_nl(cand)[:160]})")
            return
        raise AnalysisError(f"{inst}: term leaves the rational-function domain: {e}")
    run.check(ok, rule, inst, f"{path}:{line}", fn, f"{inst}:{ir.show_nl(cand)[:200]}",
              f"{msg}; {info if not ok else ''}", f"{ir.show_nl(cand)[:160]} == {ir.show_nl(ref)[:120]}")


# ------------------------------------------------------------------------------------------------
def _smoothing(run, prog, E):
    init = prog.summarise(E, "__init__")
    upd = prog.summarise(E, "update")
    run.analysed_fn(f"{E.name}.__init__")
    run.analysed_fn(f"{E.name}.update")
    v = _param(prog, E, "update")
    path, fn, line = upd.path, "ExponentialSmoothingTracker.update", upd.fn.lineno
    A_, T_ = P("#alpha"), P("#T")
    atoms = dict(ATOMS)
    atoms.update({A_: "alpha", T_: "T"})
    post = {f: substitute(t, {v: V_}) for f, t in upd.fields.items()}
    # alpha provenance: the field holds the constructor's first parameter
    _, ifn = prog.find_method(E, "__init__")
    ctor_params = [a.arg for a in ifn.args.args][1:]
    run.need(ctor_params, "ExponentialSmoothingTracker.__init__ has no smoothing parameter")
    alpha_param = ("param", ctor_params[0])
    alpha_fields = [f for f, t in init.fields.items() if t == alpha_param]
    run.check(bool(alpha_fields), "INDUCT", "Smoothing.alpha-field", f"{init.path}:{init.fn.lineno}",
              "ExponentialSmoothingTracker.__init__", "alpha-field",
              "the constructor does not store its smoothing parameter unchanged in a field",
              f"self.{alpha_fields[0] if alpha_fields else '?'} = {ctor_params[0]}")
    alpha_field = alpha_fields[0] if alpha_fields else "alpha"
    for name in ("get", "__call__", "get_normalized"):
        ret, _ = _getter(prog, E, name)
        run.analysed_fn(f"{E.name}.{name}")
        g_pre = ret
        g_post = _compose(ret, {f: post.get(f, ("field0", f)) for f in _fields_read(ret) | set(post)})
        # induction hypothesis: G(pre) = T ; claim: G(post) = (1-alpha) T + alpha v
        read = _fields_read(g_pre)
        if len(read) != 1:
            raise AnalysisError(f"ExponentialSmoothingTracker.{name} reads {sorted(read)}; expected one state field")
        state = ("field0", next(iter(read)))
        pre = {state: T_, ("field0", alpha_field): A_}
        if g_pre != state:
            run.fail("INDUCT", f"Smoothing.read.{name}", f"{path}:{line}", f"ExponentialSmoothingTracker.{name}",
                     f"read.{name}:{ir.show_nl(g_pre)}",
                     f"{name} must report the smoothed state itself, it reports {ir.show_nl(g_pre)}")
            continue
        cand = substitute(g_post, pre)
        unknown = _fields_read(cand)
        # a field the constructor computes from the smoothing parameter alone and that nothing reassigns is a constant of
        # the object -- unless the parameter itself is also read from a public attribute, which a user may set later
        # (`tracker.alpha = a`): the two copies then disagree
        for f in sorted(unknown):
            v = init.fields.get(f)
            derived = v is not None and not any(t[0] in ("field0", "draw", "res") for t in ir.subterms(v)) and \
                {t for t in ir.subterms(v) if t[0] == "param"} == {alpha_param}
            if not derived or upd.fields.get(f, ("field0", f)) != ("field0", f):
                continue
            both = ("field0", alpha_field) in ir.subterms(g_post) and not alpha_field.startswith("_")
            if both:
                run.fail("INDUCT", f"Smoothing.derived.{f}", f"{path}:{line}", fn, f"self.{f} = {ir.show_nl(v)} next to self.{alpha_field}",
                         f"update takes one weight from self.{f}, computed once in the constructor as {ir.show_nl(v)}, and the "
                         f"other from the public attribute self.{alpha_field}: after `tracker.{alpha_field} = a` the weights no "
                         f"longer add up to one and the tracked value leaves the range of the inputs")
                cand = None
                break
            cand = substitute(cand, {("field0", f): substitute(v, {alpha_param: A_})})
        if cand is None:
            continue
        unknown = _fields_read(cand)
        if unknown:
            raise AnalysisError(f"ExponentialSmoothingTracker.update reads state outside the schema: {sorted(unknown)}")
        ref = op("+", op("*", op("-", c(1), A_), T_), op("*", A_, V_))
        try:
            ok, info = identical(cand, ref, atoms=atoms)
        except OutOfDomain as e:
            raise AnalysisError(f"Smoothing.step.{name}: {e}")
        run.check(ok, "INDUCT", f"Smoothing.step.{name}", f"{path}:{line}", fn, f"step.{name}:{ir.show_nl(cand)[:200]}",
                  f"{name} after update must be (1-alpha)*previous + alpha*value; {info if not ok else ''}",
                  f"{ir.show_nl(cand)} == (1-alpha)*T + alpha*v")
        # base: constructor state reports 0
        g0 = substitute(g_pre, {("field0", f): t for f, t in init.fields.items()})
        run.check(const_value(g0) == 0, "INDUCT", f"Smoothing.base.{name}", f"{init.path}:{init.fn.lineno}",
                  "ExponentialSmoothingTracker.__init__", f"base.{name}:{ir.show_nl(g0)}",
                  f"a fresh tracker must report 0, it reports {ir.show_nl(g0)}", f"{name}(fresh) = 0")
    candN = substitute(post.get("N", ("field0", "N")), {("field0", "N"): N_})
    ok, info = identical(candN, op("+", N_, c(1)), atoms=atoms)
    run.check(ok, "COUNT", "Smoothing.N", f"{path}:{line}", fn, f"N:{ir.show_nl(candN)}",
              f"N must grow by exactly one per update; {info if not ok else ''}", f"N' = {ir.show_nl(candN)}")
    n0 = init.fields.get("N")
    run.check(n0 is not None and const_value(n0) == 0, "COUNT", "Smoothing.N0", f"{init.path}:{init.fn.lineno}",
              "ExponentialSmoothingTracker.__init__", "N0", "update count does not start at 0", "N(fresh) = 0")
    # RANGE: dominating 0 <= alpha <= 1 check in the constructor
    ok = False
    for cond, guards, gl in guard_conditions(init.events):
        if guards:
            continue
        b = bounds_from(cond, alpha_param)
        if b.get("lo") == 0 and b.get("hi") == 1 and not b.get("hi_strict"):
            ok = True
    run.check(ok, "RANGE", "Smoothing.alpha-range", f"{init.path}:{init.fn.lineno}",
              "ExponentialSmoothingTracker.__init__", "alpha-range",
              "no unconditional range check 0 <= alpha <= 1 in the constructor", "assert 0 <= alpha <= 1")


_W = "ixai/utils/tracker/welford.py"
_E = "ixai/utils/tracker/exponential_smoothing.py"
_T = "ixai/utils/tracker/base.py"
WITNESSES = [
    ("mean step divided by N+1", [(_W, "self.tracked_value += difference_1 / self.N", "self.tracked_value += difference_1 / (self.N + 1)")]),
    ("difference_1 squared", [(_W, "self.sum_squares += difference_1 * difference_2", "self.sum_squares += difference_1 * difference_1")]),
    ("sample variance max(N-1, 1)", [(_W, "return self.sum_squares / max(self.N, 1)", "return self.sum_squares / max(self.N - 1, 1)")]),
    ("alpha and 1-alpha swapped", [(_E, "self.tracked_value = (1 - self.alpha) * self.tracked_value + self.alpha * value_i", "self.tracked_value = self.alpha * self.tracked_value + (1 - self.alpha) * value_i")]),
    ("abs(value)", [(_W, "difference_1 = value_i - self.tracked_value", "difference_1 = abs(value_i) - self.tracked_value")]),
    ("missing increment (smoothing)", [(_E, "        self.N += 1\n", "")]),
    ("count incremented after the mean step", [(_W, "        self.N += 1\n        difference_1 = value_i - self.tracked_value\n        self.tracked_value += difference_1 / self.N\n",
                                                "        difference_1 = value_i - self.tracked_value\n        self.tracked_value += difference_1 / max(self.N, 1)\n        self.N += 1\n")]),
    ("early return before counting", [(_W, "        self.N += 1\n        difference_1", "        if value_i == self.tracked_value:\n            return self\n        self.N += 1\n        difference_1")]),
    ("zero inputs skipped", [(_E, "        self.tracked_value = (1 - self.alpha) * self.tracked_value + self.alpha * value_i\n", "        if value_i:\n            self.tracked_value = (1 - self.alpha) * self.tracked_value + self.alpha * value_i\n")]),
    ("rounded read-out", [(_T, "        return self.tracked_value\n", "        return round(self.tracked_value, 10)\n")]),
    ("cached variance refreshed conditionally", [(_W, "        self.sum_squares += difference_1 * difference_2\n        return self\n", "        delta = difference_1 * difference_2\n        self.sum_squares += delta\n        if delta:\n            self._var = self.sum_squares / self.N\n        return self\n"),
                                                 (_W, "        return self.sum_squares / max(self.N, 1)\n", "        return getattr(self, '_var', 0)\n")]),
    ("std of the wrong quantity", [(_W, "return self.var ** 0.5", "return self.sum_squares ** 0.5")]),
    ("alpha range check dropped", [(_E, "        assert 0 <= alpha <= 1, \"Alpha must be set to a value in between zero and one. [0,1].\"\n", "")]),
    ("smoothing starts at one", [(_T, "        self.tracked_value = 0\n", "        self.tracked_value = 1\n")]),
]
SILENT = [
    ("incremental form of the smoothing update", [(_E, "self.tracked_value = (1 - self.alpha) * self.tracked_value + self.alpha * value_i", "self.tracked_value += self.alpha * (value_i - self.tracked_value)")]),
    ("temporaries renamed", [(_W, "difference_1", "d_old", "all"), (_W, "difference_2", "d_new", "all")]),
    ("exact shortcut after counting", [(_W, "        self.N += 1\n        difference_1", "        self.N += 1\n        if value_i == self.tracked_value:\n            return self\n        difference_1")]),
    ("mean as running sum form", [(_W, "self.tracked_value += difference_1 / self.N", "self.tracked_value = (self.tracked_value * (self.N - 1) + value_i) / self.N")]),
    ("std via math.sqrt", [(_W, "return self.var ** 0.5", "import math\n        return math.sqrt(self.var)")]),
]
