"""Container typestate of the BaseStorage hierarchy, shared by C07 / C08 / C09 / C05."""
import ast
from collections import namedtuple

from .. import ir
from ..paths import paths, walk, root
from ..report import AnalysisError
from .common import base_class

Op = namedtuple("Op", "kind index value ev")   # kind: append/appendleft/popleft/pop/setitem/delitem/insert/...
GROW = {"append", "appendleft", "insert", "extend", "add"}
SHRINK = {"pop", "popleft", "remove", "delitem", "clear"}


def concrete_storages(prog, skip=("TreeStorage",)):
    """Classes below BaseStorage with a concrete `update` (discovered by hierarchy)."""
    out = []
    for c in prog.subclasses(base_class(prog, "STORAGE"), strict=True):
        if c.name in skip:
            continue
        owner, fn = prog.find_method(c, "update")
        if fn is None or c.name.startswith("_"):
            continue            # private intermediate bases are analysed through their public subclasses
        body = [n for n in fn.body if not (isinstance(n, ast.Expr) and isinstance(n.value, ast.Constant))]
        if len(body) == 1 and isinstance(body[0], ast.Raise):
            continue
        out.append(c)
    return out


def containers(prog, cls):
    """(instance field, target field) as returned by get_data()."""
    s = prog.summarise(cls, "get_data")
    r = s.ret

    def bases(pair):
        out = []
        for part in pair[1]:
            base = part
            while base[0] == "new" and base[2] in ("list", "copy", "tuple", "deepcopy") and base[3]:
                base = base[3][0]
            if base[0] == "fn" and base[1] in ("tuple",) and base[2]:
                base = base[2][0]
            out.append(base)
        return out
    if r[0] == "gate":
        # different calls return different things: a view that is kept and handed out again while some validity
        # test holds (a cache) is not the current content whenever the test misses a change
        from .algebra import arms
        from ..report import Refuted
        views = []
        for facts, v in arms(r):
            while v[0] in ("attr", "sub", "tget") and v[1][0] != "tuple":
                v = v[1]                                  # parts of a stored object
            views.append((facts, v))
        stored = [(facts, v) for facts, v in views if v[0] in ("field0", "res") or
                  (v[0] == "tuple" and any(b[0] == "field0" and ("sub", b, ("const", 0)) != b and
                                           not _is_container(prog, cls, b) for b in bases(v)))]
        if stored:
            facts, v = stored[0]
            cond = " & ".join(ir.show_nl(f)[:80] for f in facts) or "some calls"
            raise Refuted("OBS", f"{cls.name}.get_data", f"{s.path}:{s.fn.lineno}", f"{cls.name}.get_data",
                          f"get_data returns stored {ir.show_nl(v)[:80]} when {cond}",
                          f"get_data must expose the current instance and target containers on every call; under [{cond}] "
                          f"it returns {ir.show_nl(v)[:120]}, a view stored earlier -- an in-place replacement that the "
                          f"validity test does not see (same length) leaves it stale")
    if r[0] != "tuple" or len(r[1]) != 2:
        raise AnalysisError(f"{cls.name}.get_data does not return an (instances, targets) pair: {ir.show_nl(r)}")
    return s, bases(r)


def _is_container(prog, cls, field_term):
    """Is the field one the constructor chain initialises as an empty list / deque?"""
    try:
        init = prog.summarise(cls, "__init__")
    except ir.Unsupported:
        return True
    v = init.fields.get(field_term[1])
    return v is not None and ((v[0] == "new" and v[2] in ("list", "deque", "collections.deque")) or
                              (v[0] == "res" and v[2].endswith("deque")))


def update_params(prog, cls):
    _, fn = prog.find_method(cls, "update")
    names = [a.arg for a in fn.args.args][1:]
    if len(names) < 2:
        raise AnalysisError(f"{cls.name}.update does not take (x, y)")
    return ("param", names[0]), ("param", names[1])


def ops_on(path_events, field):
    """Sequence of container operations on self.<field> along one path."""
    f0 = ("field0", field)
    out = []
    for ev in path_events:
        if isinstance(ev, ir.Call) and ev.callee == f"self.{field}" and ev.method in ir.MUTATORS:
            idx = ev.args[0] if ev.method in ("insert", "pop") and ev.args else None
            val = ev.args[-1] if ev.method in GROW and ev.args else None
            out.append(Op(ev.method, idx, val, ev))
        elif isinstance(ev, ir.Mut) and root(ev.recv) == f0:
            idx = ev.args[0] if ev.method in ("insert", "pop") and ev.args else None
            val = ev.args[-1] if ev.method in GROW and ev.args else None
            out.append(Op(ev.method, idx, val, ev))
        elif isinstance(ev, ir.SubStore) and root(ev.cont) == f0:
            if ev.cont != f0:
                out.append(Op("nested-setitem", ev.key, ev.value, ev))
            else:
                out.append(Op("setitem", ev.key, ev.value, ev))
        elif isinstance(ev, ir.Del) and root(ev.cont) == f0:
            out.append(Op("delitem", ev.key, None, ev))
        elif isinstance(ev, ir.Store) and ev.field == field:
            out.append(Op("rebind", None, ev.value, ev))
    # d.rotate(-1); d[-1] = v  on a deque is  d.popleft(); d.append(v)  (the oldest entry moves to the right end and is
    # overwritten there)
    merged, i = [], 0
    while i < len(out):
        o = out[i]
        args = tuple(getattr(o.ev, "args", ()))
        if o.kind == "rotate" and args == (("const", -1),) and i + 1 < len(out) and out[i + 1].kind == "setitem" and \
                out[i + 1].index == ("const", -1):
            merged += [Op("popleft", None, None, o.ev), Op("append", None, out[i + 1].value, out[i + 1].ev)]
            i += 2
            continue
        merged.append(o)
        i += 1
    return merged


def is_value(t, param):
    """t is the parameter itself or a fresh copy of it."""
    if t == param:
        return True
    if isinstance(t, tuple) and t and t[0] == "new" and t[2] in ("copy", "deepcopy", "dict") and t[3]:
        first = t[3][0]
        if first == param:
            return True
        if t[2] == "dict" and first == ("spread", param) and len(t[3]) == 1:
            return True
    return False


def net_growth(ops):
    g = 0
    for o in ops:
        if o.kind in GROW:
            g += 1
        elif o.kind in SHRINK:
            g -= 1
    return g


def _capacity_forms(xfield, size_field, arrivals):
    """Literals meaning 'fill level below capacity': len(X) < size ; arrivals+1 <= size ; arrivals < size."""
    size = ("field0", size_field)
    forms = [("cmp", "<", ("fn", "len", (("field0", xfield),)), size)]
    if arrivals:
        a0 = ("field0", arrivals)
        forms += [("cmp", "<=", ("op", "+", a0, ("const", 1)), size), ("cmp", "<", a0, size)]
    return forms


def capacity_guard(lit, xfield, size_field, arrivals):
    """Does the branch literal bound the fill level below capacity (any spelling)?"""
    from .boolalg import literal
    a, pol = literal(lit)
    return any(literal(f) == (a, pol) for f in _capacity_forms(xfield, size_field, arrivals))


def full_guard(lit, xfield, size_field, arrivals):
    return capacity_guard(ir.negate(lit), xfield, size_field, arrivals)


def arrivals_counter(prog, cls, summary, path_list, other_writers=None):
    """A field initialised to 0, incremented by exactly 1 exactly once on every update path and written
    nowhere else in the class; returns its name or None. (Terms are values: `field + 1` denotes the number
    of arrivals including the current one wherever the increment statement sits.)"""
    init = prog.summarise(cls, "__init__")
    cands = []
    for f, t in summary.fields.items():
        if t == ("op", "+", ("field0", f), ("const", 1)) and init.fields.get(f) == ("const", 0):
            cands.append(f)
    for f in cands:
        ok = True
        for p in path_list:
            st = [e for e in p.events if isinstance(e, ir.Store) and e.field == f]
            if len(st) != 1 or st[0].value != ("op", "+", ("field0", f), ("const", 1)):
                ok = False
        # no other method writes it (helpers that update() calls are part of update: their writes are in the paths)
        helpers = {ev.fn.name for ev, _ in walk(summary.events, structural=True) if isinstance(ev, ir.Inlined)}
        for c in prog.mro(cls):
            for name, fn in c.methods.items():
                if name in ("__init__", "update") or name in helpers:
                    continue
                for n in ast.walk(fn):
                    if isinstance(n, ast.Attribute) and isinstance(n.ctx, ast.Store) and n.attr == f:
                        if other_writers is not None:
                            other_writers.append((c, name, fn))     # judged by the caller
                        else:
                            ok = False
        if ok:
            return f
    return None


def partial_counter(prog, cls, summary, path_list):
    """A field initialised to 0 that update increments by one on some paths but leaves alone on others (an arrival
    counter that misses arrivals); returns (field, guards of an uncounted path) or None."""
    init = prog.summarise(cls, "__init__")
    for f, t0 in init.fields.items():
        if t0 != ("const", 0):
            continue
        counted = [p for p in path_list if any(isinstance(e, ir.Store) and e.field == f and
                                               e.value == ("op", "+", ("field0", f), ("const", 1)) for e in p.events)]
        missed = [p for p in path_list if not any(isinstance(e, ir.Store) and e.field == f for e in p.events)]
        if counted and missed:
            return f, missed[0].guards
    return None


def update_paths(prog, cls, unroll=2):
    s = prog.summarise(cls, "update")
    ps = paths(s.events, unroll=unroll)
    # a branch that compares a drawn position with a length / counter (`slot == len(xs)` with slot a random index on
    # some arms) is decided by arithmetic on the reservoir's fill level that these rules do not do: no verdict
    for p in ps:
        for g in p.guards:
            for t in ir.subterms(g):
                if t[0] == "cmp" and t[1] in ("==", "!=", "<", "<=", ">", ">=") and \
                        any(x[0] == "draw" and x[2].rsplit(".", 1)[-1] in ("randrange", "randint")
                            for side in t[2:4] for x in ir.subterms(side)) and \
                        not any(side[0] == "const" for side in t[2:4]):
                    raise AnalysisError(f"{cls.name}.update branches on {ir.show_nl(t)[:120]}: a drawn position is compared "
                                        f"with a length / counter; this arithmetic is not decided")
    return s, ps
