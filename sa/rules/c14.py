"""C14 -- model wrappers give one canonical dict output form for single and batch input (partial claim).

 SHAPE     Wrapper.convert_arr_output_to_dict: any size-one output (scalar, (1,), (1,1)) -> {default_label: float}
           selected by an explicit `size == 1` test and extracted with a conversion that is total on size-one arrays
           (.item() / flat[0]); anything else -> {i: flat[i] for i in range(len(flat))}; strings raise ValueError;
           every numpy name used resolves in the installed NumPy (NPAPI);
 INPUT     both input converters project on feature_names in that order exactly when feature_names is not None,
           for every row, with no other condition;
 WIRING    Sklearn/Torch wrappers: dict path = convert_1d -> model -> convert_arr_output; list path = convert_2d ->
           one model call -> [convert_arr_output(out[i]) for i in range(len(out))] on the unmodified model output;
 RIVER     _extend_dict: dict passthrough / {default_label: float} / one-hot over the labels seen *including* the new
           one; the list path is the per-row application of the single-instance path;
 DISPATCH  validate_model_function returns Wrapper instances unchanged (first test) and wraps sklearn / river bound
           methods and torch modules in the matching wrapper around the original callable.
"""
import ast

from .. import ir
from ..paths import walk
from ..report import AnalysisError
from .common import const_value, substitute, gate_on
from . import npapi

META = {
    "explanation": "Structural rules on the summaries of the wrapper base converters and of every wrapper __call__ "
                   "(helpers inlined with recorded argument bindings): guard and extraction idiom of the size-one case, "
                   "projection guards of the input converters, wiring of converter -> model -> converter on both paths, "
                   "per-row agreement of RiverWrapper's list path with its single path (term substitution), dispatch "
                   "order of the validator, and NPAPI resolution of numpy names.",
    "trusted_base": ["NumPy: float(ndarray) is defined for 0-d arrays only (NumPy >= 2); .item() for size-one arrays",
                     "third-party models compute batch rows independently"],
    "assumptions": [],
    "not_decided": "all estimator classes / dtypes of third-party libraries; that a batch call equals row-wise calls "
                   "(a property of the wrapped model)",
}
META["explanation"] += ' Also COPY for the wrappers.'
META["explanation"] += ' Round 5: the model a bound method belongs to is compared with None, never truth-tested (DISPATCH owner-by-identity); the 1-d input rule is decided case by case; DEP-C18 E4 for the wrapper / validator modules; registries filled by __init_subclass__ are not decided. HAZARD: constructs that do not mean what they look like, met in the analysed code (defaults evaluated once, class-level containers changed through self, dict.fromkeys with a shared mutable value, late-binding lambdas, truth value of objects that define __len__) are reported by every check.'
META["explanation"] += ' Round 6: len(flat) == 1 as size test; method names looked up in a table; DEP-C15 NOMUT (the shared feature-name list keeps its order).'
MIN_INSTANCES = {"SHAPE": 3, "INPUT": 2, "WIRING": 4, "RIVER": 3, "DISPATCH": 3, "NPAPI": 1, "COPY": 3}
FLAT = (".flatten", ".ravel")


def check(run):
    from .c06 import depends_on
    depends_on(run, "C18", {"E4"}, only=lambda rule, inst: "wrappers" in inst or "validators" in inst)
    depends_on(run, "C15", {"NOMUT"})       # the feature-name list a wrapper shares with an explainer keeps its order  # no answer / encoding kept across calls
    _check_own(run)
    # COPY: a copied wrapper keeps its model function, its feature order and its label memory
    from .copylib import copy_protocol
    prog = run.prog
    for cls in [c for c in (prog.find_class(n) for n in ("SklearnWrapper", "TorchWrapper", "RiverWrapper")) if c is not None]:
        if cls is not None:
            copy_protocol(run, prog, cls)


def _check_own(run):
    prog = run.prog
    W = prog.find_class("Wrapper")
    run.need(W is not None, "anchor class Wrapper vanished")
    _npapi(run, prog, W)
    _shape(run, prog, W)
    _inputs(run, prog, W)
    for name in ("SklearnWrapper", "TorchWrapper"):
        c = prog.find_class(name)
        run.need(c is not None, f"anchor class {name} vanished")
        _wiring(run, prog, c)
    _river(run, prog)
    _dispatch(run, prog, W)


def _wrapper_fields(prog, W):
    """(prediction-function field, feature-names field) of the Wrapper base class: the fields its
    constructor fills from the parameters `prediction_function` and `feature_names`."""
    init = prog.summarise(W, "__init__")
    out = []
    for pname in ("prediction_function", "feature_names"):
        fs = [f for f, t in init.fields.items() if t == ("param", pname)]
        if len(fs) != 1:
            raise AnalysisError(f"Wrapper.__init__ does not store its {pname} argument in exactly one field: {fs}")
        out.append(fs[0])
    return tuple(out)


def _npapi(run, prog, W):
    mods = {c.module.name for c in prog.subclasses(W)}
    refs = npapi.numpy_refs(prog, mods)
    bad = 0
    for path, line, dotted in refs:
        exists, removed = npapi.resolves(dotted)
        if not exists or removed:
            bad += 1
            run.fail("NPAPI", dotted, f"{path}:{line}", "Wrapper", dotted, f"{dotted} does not exist in NumPy {npapi.numpy_version()}")
    if not bad:
        run.ok("NPAPI", "wrappers", f"{len(refs)} numpy references resolve in NumPy {npapi.numpy_version()}")


def _is_flat(t, y):
    """t is a flattened view of y."""
    if t[0] == "res" and t[2] in FLAT and t[3] and t[3][0] == y:
        return True
    if t[0] == "res" and t[2] == ".reshape" and t[3] and t[3][0] == y and len(t[3]) == 2 and const_value(t[3][1]) == -1:
        return True
    return False


def _shape(run, prog, W):
    s = prog.summarise(W, "convert_arr_output_to_dict")
    fq = "Wrapper.convert_arr_output_to_dict"
    run.analysed_fn(fq)
    _, fn = prog.find_method(W, "convert_arr_output_to_dict")
    p = ("param", [a.arg for a in fn.args.args][1])
    label = ("field0", "default_label")
    rets = [(ev, ctx) for ev, ctx in walk(s.events) if isinstance(ev, (ir.Return, ir.Raise))]
    delegated = {ev.ret for ev, _ in walk(s.events, structural=True) if isinstance(ev, ir.Inlined)}
    one_seen = many_seen = raise_seen = False
    for ev, ctx in rets:
        if isinstance(ev, ir.Return) and not ctx.inl and ev.value in delegated:
            continue            # `return helper(...)`: the helper's own returns are examined
        gtxt = " & ".join(ir.show_nl(g) for g in ctx.guards) or "always"
        in_handler = [h for t, h in ctx.tries if h != "body"]
        if isinstance(ev, ir.Raise):
            if in_handler and "ValueError" in in_handler[0].exc:
                raise_seen = True
            continue
        v = ev.value
        if v[0] == "new" and v[2] == "dict" and len(v[3]) == 1 and v[3][0][0] == "kv" and v[3][0][1] == label:
            val = v[3][0][2]
            inner = val[2][0] if val[0] == "fn" and val[1] == "float" and len(val[2]) == 1 else None
            # the array the size test talks about
            size_guard = [g for g in ctx.guards if g[0] == "cmp" and g[1] == "==" and g[2][0] == "attr" and g[2][2] == "size"
                          and const_value(g[3]) == 1]
            arr = size_guard[0][2][1] if size_guard else None
            flat_view = None
            if not size_guard:
                # `len(y.reshape(-1)) == 1` / `len(y.flatten()) == 1`: the number of entries of the flattened output
                for g in ctx.guards:
                    if g[0] == "cmp" and g[1] == "==" and g[2][0] == "fn" and g[2][1] == "len" and len(g[2][2]) == 1 and \
                            const_value(g[3]) == 1:
                        for a in (p, ("fn", "asarray", (p,))):
                            if _is_flat(g[2][2][0], a):
                                size_guard, arr, flat_view = [g], a, g[2][2][0]
            total = inner is not None and arr is not None and (
                (inner[0] == "res" and inner[2] == ".item" and inner[3] in ((arr,), (flat_view,))) or
                (inner[0] == "sub" and const_value(inner[2]) == 0 and _is_flat(inner[1], arr)))
            arr_ok = arr is not None and (arr == p or (arr[0] == "fn" and arr[1] == "asarray" and arr[2] and arr[2][0] == p))
            if not size_guard:
                in_try = [t for t, h in ctx.tries if h == "body"]
                run.fail("SHAPE", "size-one", f"{s.path}:{ev.line}", fq, f"size-one case selected by [{gtxt}]",
                         "the {default_label: value} form must be selected by an explicit `size == 1` test: "
                         + ("float(ndarray) inside try/except only succeeds for 0-d arrays on NumPy >= 2, so (1,) and (1,1) "
                            "outputs fall through to {0: value}" if in_try else f"it is returned under [{gtxt}]"))
            else:
                run.check(total and arr_ok, "SHAPE", "size-one", f"{s.path}:{ev.line}", fq, f"size-one value {ir.show_nl(val)[:100]}",
                          f"a size-one output must be converted with an extraction that is total on size-one arrays of any "
                          f"dimension (.item() or flat[0]) of the model output; found {ir.show_nl(val)[:140]}",
                          "size == 1 -> {default_label: float(y.item())}")
            one_seen = True
            continue
        if v[0] == "comp" and v[1] == "dict" and not v[6]:
            el = ("elem", v[2])
            flat = v[5][1] if v[5][0] == "sub" and v[5][2] == el else None
            base_ok = flat is not None and any(_is_flat(flat, a) for a in (p, ("fn", "asarray", (p,))))
            rng = v[3]
            n_ok = flat is not None and rng[0] == "fn" and rng[1] == "range" and len(rng[2]) == 1 and rng[2][0] in (
                ("sub", ("attr", flat, "shape"), ("const", 0)), ("fn", "len", (flat,)), ("attr", flat, "size"))
            run.check(v[4] == el and base_ok and n_ok, "SHAPE", "vector", f"{s.path}:{ev.line}", fq,
                      f"vector form {ir.show_nl(v)[:120]}",
                      f"a vector output must become {{i: flat[i] for i in range(len(flat))}} over the flattened output; found "
                      f"{ir.show_nl(v)[:180]}", "{i: y.flatten()[i] for i in range(n)}")
            many_seen = True
            continue
        if v[0] == "new" and v[2] == "dict" and len(v[3]) == 1 and v[3][0][0] == "fn" and v[3][0][1] == "enumerate" and \
                len(v[3][0][2]) == 1 and any(_is_flat(v[3][0][2][0], a) for a in (p, ("fn", "asarray", (p,)))):
            run.ok("SHAPE", "vector", "dict(enumerate(flattened output))")
            many_seen = True
            continue
        if v[0] in ("tryphi",) or v == p:
            continue
        run.fail("SHAPE", "form", f"{s.path}:{ev.line}", fq, f"returns {ir.show_nl(v)[:100]}",
                 f"unexpected output form {ir.show_nl(v)[:160]}")
    run.check(one_seen and many_seen, "SHAPE", "cases", f"{s.path}:{s.fn.lineno}", fq, f"size-one={one_seen} vector={many_seen}",
              "the converter must distinguish the size-one and the vector case", "two output forms")
    run.check(raise_seen, "SHAPE", "strings", f"{s.path}:{s.fn.lineno}", fq, "string outputs",
              "string outputs (ValueError of the float conversion) must be reported as ValueError", "ValueError re-raised")


def _plain_1d(x):
    """np.asarray(list(x.values())).reshape(1, -1) as the engine writes it (sites left open)."""
    vals = ("res", "@", ".values", (x,), ())
    lst = ("new", "@", "list", (vals,))
    arr = ("fn", "asarray", (lst,))
    return ("res", "@", ".reshape", (arr, ("const", 1), ("const", -1)), ())


def _inputs(run, prog, W):
    names = ("field0", _wrapper_fields(prog, W)[1])
    has = ("cmp", "is not", names, ("const", None))
    # 1d
    s = prog.summarise(W, "convert_1d_input_to_arr")
    fq = "Wrapper.convert_1d_input_to_arr"
    run.analysed_fn(fq)
    _, fn = prog.find_method(W, "convert_1d_input_to_arr")
    x = ("param", [a.arg for a in fn.args.args][1])
    proj = lambda src, lid: ("comp", "dict", lid, names, ("elem", lid), ("sub", src, ("elem", lid)), ())
    gates = [t for t in ir.subterms(s.ret) if t[0] == "gate"]
    sel = gate_on(gates[0], has) if len(gates) == 1 else None
    ok = sel is not None and sel[1] == x and sel[0][0] == "comp" and sel[0] == proj(x, sel[0][2])
    shape_ok = s.ret[0] == "res" and s.ret[2] == ".reshape" and s.ret[3][1:] == (("const", 1), ("const", -1))
    if not (ok and shape_ok):
        # the two cases may be written as two complete expressions (an early return for one of them): case by case
        from .algebra import arms as _arms
        from .boolalg import holds as _holds, excluded as _excluded
        try:
            cases = _arms(s.ret)
        except Exception:
            cases = []
        good = bool(cases)
        for facts, v in cases:
            shaped = v[0] == "res" and v[2] == ".reshape" and v[3][1:] == (("const", 1), ("const", -1))
            src = [t for t in ir.subterms(v) if t == x or (t[0] == "comp" and t[1] == "dict")] if shaped else []
            comps = [t for t in src if t[0] == "comp"]
            if _holds(facts, has):
                good = good and shaped and len(comps) == 1 and comps[0] == proj(x, comps[0][2]) and \
                    ir.strip_sites(v) == ir.strip_sites(ir.subst(_plain_1d(x), {x: comps[0]}))
            elif _excluded(facts, has):
                good = good and shaped and not comps and ir.strip_sites(v) == ir.strip_sites(_plain_1d(x))
            else:
                good = False
        ok = shape_ok = good
    run.check(ok and shape_ok, "INPUT", "1d", f"{s.path}:{s.fn.lineno}", fq, f"1d input {ir.show_nl(s.ret)[:140]}",
              "a single dict must be projected on feature_names (in that order) exactly when feature_names is given and "
              f"become a (1, d) array; found {ir.show_nl(s.ret)[:200]}", "x -> {f: x[f] for f in names} if names else x -> (1, d)")
    # 2d
    s2 = prog.summarise(W, "convert_2d_input_to_arr")
    fq2 = "Wrapper.convert_2d_input_to_arr"
    run.analysed_fn(fq2)
    _, fn2 = prog.find_method(W, "convert_2d_input_to_arr")
    xs = ("param", [a.arg for a in fn2.args.args][1])
    from .algebra import arms
    from .boolalg import holds, excluded
    from .common import list_build
    ok2, why = True, ""
    arr = s2.ret
    if not (arr[0] == "fn" and arr[1] == "asarray" and arr[2]):
        ok2, why = False, f"returns {ir.show_nl(arr)[:80]}, not one array of the rows"
    n_cases = 0
    if ok2:
        for facts1, rows in arms(arr[2][0]):
            lb = list_build(rows, s2.events)
            if lb is None or len(lb.entries) != 1:
                ok2, why = False, f"rows are not built by one pass over the batch ({0 if lb is None else len(lb.entries)} append sites)"
                break
            rowv, ectx, eev = lb.entries[0]
            over = lb.over
            lid = lb.lid
            if over == xs:
                row_src = ("elem", lid)
            elif over is not None and over[0] == "fn" and over[1] == "range" and len(over[2]) == 1 and \
                    over[2][0] in (("fn", "len", (xs,)),):
                row_src = ("sub", xs, ("elem", lid))
            else:
                ok2, why = False, f"rows range over {ir.show_nl(over)[:80] if over else None}, not over the batch"
                break
            outer = tuple(ectx.guards) if ectx is not None else ()
            for facts2, v in arms(rowv):
                facts = tuple(facts1) + outer + tuple(facts2)
                n_cases += 1
                extra = [g for g in facts if names not in ir.subterms(g)]
                proj = v[0] == "comp" and v[1] == "list" and v[3] == names and v[5] == ("sub", row_src, ("elem", v[2])) and not v[6]
                plain = v[0] == "new" and v[2] == "list" and v[3] and v[3][0][0] == "res" and v[3][0][2] == ".values" and \
                    v[3][0][3] == (row_src,)
                if extra:
                    ok2, why = False, f"the projection depends on {ir.show_nl(extra[0])[:120]}, not only on feature_names being given"
                elif holds(facts, has) and not proj:
                    ok2, why = False, f"with feature_names the row is {ir.show_nl(v)[:120]}, not [row[f] for f in feature_names]"
                elif excluded(facts, has) and not plain:
                    ok2, why = False, f"without feature_names the row is {ir.show_nl(v)[:120]}, not list(row.values())"
                elif not holds(facts, has) and not excluded(facts, has):
                    ok2, why = False, "rows are built without consulting feature_names"
    run.check(ok2 and n_cases >= 2, "INPUT", "2d", f"{s2.path}:{s2.fn.lineno}", fq2, f"2d input: {why or 'ok'}",
              f"every row of a batch must be projected on feature_names (in that order) exactly when feature_names is given: "
              f"{why}", "rows -> [row[f] for f in names] if names else list(row.values())")
    run.ok("INPUT", "2d-array", "asarray(rows)") if ok2 else None


def _wiring(run, prog, cls):
    from .boolalg import excluded
    s = prog.summarise(cls, "__call__")
    fq = f"{cls.name}.__call__"
    run.analysed_fn(fq)
    _, fn = prog.find_method(cls, "__call__")
    x = ("param", [a.arg for a in fn.args.args][1])
    isd = ("fn", "isinstance", (x, ("global", "builtins.dict")))
    pf = "self." + _wrapper_fields(prog, prog.find_class("Wrapper"))[0]
    inl = [(ev, ctx) for ev, ctx in walk(s.events, structural=True) if isinstance(ev, ir.Inlined)]
    calls = [(ev, ctx) for ev, ctx in walk(s.events) if isinstance(ev, ir.Call) and ev.callee == pf]

    def raw(t):
        """strip the torch tensor -> numpy chain"""
        while t[0] == "res" and t[2] in (".detach", ".cpu", ".numpy") and t[3]:
            t = t[3][0]
        return t

    def feeds(arg, conv_ret):
        """model input is the converter output (possibly wrapped by torch.tensor)"""
        if arg == conv_ret:
            return True
        return arg[0] == "res" and arg[2] in ("torch.tensor", "torch.as_tensor", "torch.from_numpy") and arg[3] and arg[3][0] == conv_ret
    # the two input forms are told apart by `isinstance(x, dict)`; every event is looked at under each outcome of
    # that test (events whose guards exclude the outcome do not belong to the form, values are read under it)
    for mode, conv_in, other_in, fact in (("dict", "convert_1d_input_to_arr", "convert_2d_input_to_arr", isd),
                                          ("list", "convert_2d_input_to_arr", "convert_1d_input_to_arr", ir.negate(isd))):
        def live(ctx):
            return not excluded(tuple(ctx.guards), fact)

        def A(t):
            return ir.assume(t, [fact])
        ins = [ev for ev, ctx in inl if ev.qual.endswith(conv_in) and live(ctx)]
        wrong = [ev for ev, ctx in inl if ev.qual.endswith(other_in) and live(ctx)]
        mcs = [ev for ev, ctx in calls if live(ctx)]
        outs = [(ev, ctx) for ev, ctx in inl if ev.qual.endswith("convert_arr_output_to_dict") and live(ctx)]
        ok = len(ins) == 1 and len(mcs) == 1 and len(outs) == 1 and not wrong
        why = f"{len(ins)} input conversions, {len(mcs)} model calls, {len(outs)} output conversions" + \
            (f", {len(wrong)} calls of the other input converter" if wrong else "")
        if ok:
            in_arg = A(list(ins[0].params.values())[0]) if ins[0].params else None
            ok = in_arg == x and bool(mcs[0].args) and feeds(A(mcs[0].args[0]), A(ins[0].ret))
            why = "the model is not called on the converted input"
        if ok:
            oev, octx = outs[0]
            oarg = A(list(oev.params.values())[0]) if oev.params else None
            if mode == "dict":
                ok = oarg is not None and raw(oarg) == A(mcs[0].res) and not [l for l in octx.loops]
                why = f"the output converter receives {ir.show_nl(oarg)[:120] if oarg else None}, not the model output"
            else:
                lp = [l for l in octx.loops]
                out = None
                if len(lp) == 1 and oarg is not None and oarg[0] == "sub" and oarg[2] == ("elem", lp[0].lid):
                    out = oarg[1]
                ok = out is not None and raw(out) == A(mcs[0].res) and A(lp[0].iter) == ("fn", "range", (("fn", "len", (out,)),))
                why = (f"rows are taken from {ir.show_nl(out)[:120]}, which is not the unmodified batch output" if out is not None
                       and raw(out) != A(mcs[0].res) else "the output is not converted row by row over range(len(output))")
                if ok:
                    rv = A(s.ret)
                    ok = rv[0] == "comp" and rv[1] == "list" and rv[2] == lp[0].lid and A(rv[5]) == A(oev.ret) and not rv[6]
                    why = "the returned list is not the list of converted rows in order"
        run.check(ok, "WIRING", f"{cls.name}.{mode}", f"{s.path}:{s.fn.lineno}", fq, f"{mode} path: {why if not ok else 'ok'}",
                  f"{mode} path must be {conv_in} -> one model call -> convert_arr_output_to_dict"
                  f"{' per row of the unmodified output' if mode == 'list' else ''}: {why}",
                  f"{mode}: {conv_in} -> model -> convert_arr_output_to_dict")


def _river(run, prog):
    cls = prog.find_class("RiverWrapper")
    run.need(cls is not None, "anchor class RiverWrapper vanished")
    ri = prog.summarise(cls, "__init__")
    # the per-instance label memory: the one container the constructor creates empty
    sets = [f for f, t in ri.fields.items() if t[0] == "new" and t[2] in ("set", "list", "dict") and not t[3]]
    slf = sets[0] if len(sets) == 1 else None
    sl = ri.fields.get(slf) if slf else None
    run.check(sl is not None and sl[0] == "new" and sl[2] == "set" and not sl[3], "RIVER", "labels-per-instance",
              f"{ri.path}:{ri.fn.lineno}", "RiverWrapper.__init__", f"seen labels = {ir.show_nl(sl) if sl else 'not set in __init__'}",
              "every RiverWrapper needs its own, initially empty, set of seen labels created in __init__ (a class-level set is "
              "shared by all wrappers of the process)", f"self.{slf} = set() per instance")
    if slf is None:
        return
    # the single-output converter: the one helper method of the class that __call__ applies to the model output
    sc = prog.summarise(cls, "__call__")
    helpers = []
    pf_call = "self." + _wrapper_fields(prog, prog.find_class("Wrapper"))[0]
    for ev, ctx in walk(sc.events, structural=True):
        # the helper that is handed what the model returned (wherever in __call__'s own helpers that happens)
        if isinstance(ev, ir.Inlined) and ev.cls is not None and ev.fn.name in cls.methods and ev.fn.name not in helpers and \
                any(isinstance(v, tuple) and v and v[0] == "res" and v[2] == pf_call for v in ev.params.values()) and \
                not any(i.fn.name in helpers for i in ctx.inl):
            helpers.append(ev.fn.name)
    run.need(len(helpers) == 1, f"RiverWrapper.__call__ does not convert outputs through one helper method: {helpers}")
    hname = helpers[0]
    e = prog.summarise(cls, hname)
    fq = f"RiverWrapper.{hname}"
    run.analysed_fn(fq)
    _, fn = prog.find_method(cls, hname)
    y = ("param", [a.arg for a in fn.args.args][1])
    label = ("field0", "default_label")
    seen = ("field0", slf)
    isd = ("fn", "isinstance", (y, ("global", "builtins.dict")))
    rets = [(ev, ctx) for ev, ctx in walk(e.events) if isinstance(ev, ir.Return)]
    kinds = set()
    # every way a value is returned: each `return`, each resolution of the selections in its value, and for a
    # variable assigned in a try statement each arm (body / handler) that assigns it
    from .algebra import arms
    tries = {t.tid: t for t, _ in walk(e.events, structural=True) if isinstance(t, ir.Try)}
    cases = []
    for ev, ctx in rets:
        for facts, val in arms(ev.value):
            handler = [h for t, h in ctx.tries if h != "body"]
            guards = tuple(ctx.guards) + tuple(facts)
            if val[0] == "tryphi" and len(val) >= 5 and val[1] in tries:
                for alt, arm in zip(val[3], val[4]):
                    cases.append((ev, alt, guards, [tries[val[1]].handlers[arm - 1]] if arm > 0 else handler))
            else:
                cases.append((ev, val, guards, handler))
    for ev, v, guards, handler in cases:
        if v == y and isd in guards:
            kinds.add("dict")
        elif v[0] == "new" and v[2] == "dict" and v[3] == (("kv", label, ("fn", "float", (y,))),):
            kinds.add("float")
        elif handler and "ValueError" in handler[0].exc and v[0] == "comp" and v[1] == "dict" and v[3] == seen and \
                const_value(v[5]) == 0:
            idx = {id(x): i for i, (x, _) in enumerate(walk(e.events))}
            adds = [x for x, c in walk(e.events) if isinstance(x, ir.Call) and x.callee == f"self.{slf}" and
                    x.method == "add" and x.args == (y,)]
            hot = [x for x, c in walk(e.events) if isinstance(x, ir.SubStore) and x.cont == v and x.key == y and
                   const_value(x.value) == 1]
            # the label must be registered before the zero dict is built: the comprehension reads the set at the
            # return's evaluation point, so `add` has to precede the hot-entry store
            ok = len(adds) == 1 and len(hot) == 1 and idx[id(adds[0])] < idx[id(hot[0])]
            run.check(ok, "RIVER", "one-hot", f"{e.path}:{ev.line}", fq, "one-hot construction",
                      "a string label must be added to the seen labels before the one-hot dict over the seen labels is built "
                      "and its own entry set to 1", "seen.add(label); {l: 0 for l in seen}; out[label] = 1")
            kinds.add("onehot")
        elif handler and "ValueError" in handler[0].exc and v[0] == "new" and v[2] == "dict" and len(v[3]) == 2 and \
                v[3][0][0] == "spread" and v[3][0][1][0] == "comp" and v[3][0][1][1] == "dict" and v[3][0][1][3] == seen and \
                v[3][0][1][4] == ("elem", v[3][0][1][2]) and not v[3][0][1][6] and const_value(v[3][0][1][5]) == 0:
            # the display spelling {**{l: 0 for l in seen}, label: 1}: built where it is returned
            idx = {id(x): i for i, (x, _) in enumerate(walk(e.events))}
            adds = [x for x, c in walk(e.events) if isinstance(x, ir.Call) and x.callee == f"self.{slf}" and
                    x.method == "add" and x.args == (y,)]
            hot = v[3][1][0] == "kv" and v[3][1][1] == y and const_value(v[3][1][2]) == 1
            ok = len(adds) == 1 and hot and idx[id(adds[0])] < idx[id(ev)]
            run.check(ok, "RIVER", "one-hot", f"{e.path}:{ev.line}", fq, "one-hot construction",
                      "a string label must be added to the seen labels before the one-hot dict over the seen labels is built "
                      "and its own entry set to 1", "seen.add(label); {**{l: 0 for l in seen}, label: 1}")
            kinds.add("onehot")
    run.check(kinds == {"dict", "float", "onehot"}, "RIVER", "forms", f"{e.path}:{e.fn.lineno}", fq, f"forms {sorted(kinds)}",
              f"the output converter must pass dicts through, wrap floats under the default label and one-hot strings; found "
              f"{sorted(kinds)}", "dict / float / one-hot")
    # list path == per-row single path
    s = prog.summarise(cls, "__call__")
    fq2 = "RiverWrapper.__call__"
    run.analysed_fn(fq2)
    _, cfn = prog.find_method(cls, "__call__")
    x = ("param", [a.arg for a in cfn.args.args][1])
    r = s.ret
    ok = r[0] == "gate" and r[1] == ("fn", "isinstance", (x, ("global", "builtins.dict"))) and r[3][0] == "comp" and \
        r[3][1] == "list" and r[3][3] == x and not r[3][6]
    if ok:
        single = ir.strip_sites(_renumber(substitute(r[2], {x: ("elem", r[3][2])})))
        row = ir.strip_sites(_renumber(r[3][5]))
        ok = single == row
        # and nothing else happens on the list path (e.g. labels registered ahead of the rows)
        extra = [ev for ev, c in walk(s.events) if isinstance(ev, (ir.Call, ir.Mut)) and ir.negate(r[1]) in c.guards and
                 not c.loops and getattr(ev, "method", None) in ("add", "update")]
        ok = ok and not extra
    run.check(ok, "RIVER", "rowwise", f"{s.path}:{s.fn.lineno}", fq2, "list path vs single path",
              "the list path must apply the single-instance conversion to every row in order (labels become visible row by "
              "row, exactly as in one-at-a-time calls)", "[single(x_i) for x_i in x]")


def _renumber(t, table=None):
    """Canonical loop/try ids so that two inlined copies of one helper compare equal."""
    table = {} if table is None else table
    if isinstance(t, tuple) and t:
        if t[0] in ("elem", "mu", "eta") and isinstance(t[1], int):
            return (t[0], table.setdefault(t[1], len(table))) + tuple(t[2:])
        if t[0] == "comp":
            lid = table.setdefault(t[2], len(table))
            return ("comp", t[1], lid) + tuple(_renumber(x, table) if isinstance(x, tuple) else x for x in t[3:])
        if t[0] in ("tryret", "tryphi") and isinstance(t[1], int):
            return (t[0], table.setdefault(("t", t[1]), len(table))) + tuple(_renumber(x, table) if isinstance(x, tuple) else x for x in t[2:])
        return tuple(_renumber(x, table) if isinstance(x, tuple) else x for x in t)
    return t


def _dispatch(run, prog, W):
    q = "ixai.utils.validators.model.validate_model_function"
    s = prog.summarise_func(q)
    fq = "validate_model_function"
    run.analysed_fn(fq)
    _, fn = prog.func(q)
    p = ("param", fn.args.args[0].arg)
    first = s.events[0] if s.events else None
    ok = isinstance(first, ir.If) and first.cond == ("fn", "isinstance", (p, ("global", W.qual))) and first.then and \
        isinstance(first.then[-1], ir.Return) and first.then[-1].value == p
    run.check(ok, "DISPATCH", "wrapper-passthrough", f"{s.path}:{s.fn.lineno}", fq, "Wrapper instances",
              "Wrapper instances must be returned unchanged before any other test", "isinstance(f, Wrapper) -> f")
    # the model a bound method belongs to is an arbitrary object: asking for its truth value calls its __len__ /
    # __bool__ (an ensemble that has not learned yet is empty, hence false; an unfitted sklearn ensemble raises) --
    # "is there an owner" must be asked with `is None`
    def owner_like(t):
        return any(x == ("const", "__self__") or (x[0] == "attr" and len(x) > 2 and x[2] == "__self__") for x in ir.subterms(t))

    def raw_tests(t):
        """operands of and/or/not and conditions of selections inside t that are objects rather than truth values"""
        out = []
        for x in ir.subterms(t):
            ops = x[1] if x[0] in ("and", "or") else ((x[1],) if x[0] in ("not", "gate") else ())
            for o in ops:
                if isinstance(o, tuple) and o and o[0] not in ("cmp", "not", "and", "or", "const") and \
                        not (o[0] == "fn" and o[1] in ("isinstance", "hasattr", "callable", "bool", "issubclass")) and owner_like(o):
                    out.append(o)
        return out
    tested = []
    for ev, ctx in walk(s.events, structural=True):
        for part in ev:
            if isinstance(part, tuple):
                tested += raw_tests(part)
        if isinstance(ev, ir.If) and isinstance(ev.cond, tuple) and ev.cond[0] not in ("cmp", "not", "and", "or") and owner_like(ev.cond) \
                and not (ev.cond[0] == "fn" and ev.cond[1] in ("isinstance", "hasattr", "callable")):
            tested.append(ev.cond)
    run.check(not tested, "DISPATCH", "owner-by-identity", f"{s.path}:{s.fn.lineno}", fq,
              f"truth value taken of {ir.show_nl(tested[0])[:100] if tested else ''}",
              f"the model object a bound method belongs to is tested for truth ({ir.show_nl(tested[0])[:120] if tested else ''}): "
              f"models that define __len__ are false while empty (river ensembles before the first learn_one) or raise "
              f"(unfitted sklearn ensembles), so their methods are not wrapped", "the owner is only compared with None")
    want = {"sklearn": "SklearnWrapper", "river": "RiverWrapper"}
    for ev, ctx in walk(s.events):
        if isinstance(ev, ir.Construct):
            name = ev.qual.rsplit(".", 1)[1]
            args = list(ev.args) + [v for _, v in ev.kwargs]
            lit = [g for g in ctx.guards if g[0] == "cmp" and g[1] == "in" and g[2][0] == "const"]
            key = lit[-1][2][1] if lit else ("torch" if any("torch" in ir.show_nl(g) for g in ctx.guards) else None)
            exp = want.get(key, "TorchWrapper" if key == "torch" else None)
            run.check(exp == name and p in args, "DISPATCH", f"wrap.{key}", f"{s.path}:{ev.line}", fq,
                      f"{key} -> {name}({', '.join(ir.show_nl(a)[:30] for a in args)})",
                      f"a {key} model function must be wrapped in {exp} around the original callable; found {name}",
                      f"{key} -> {name}(original callable)")
    # what is returned is the callable itself, None (no match), or a wrapper constructed in this very call
    from .common import value_leaves
    built = {ev.res for ev, _ in walk(s.events) if isinstance(ev, ir.Construct)}
    returned = [x for ev, ctx in walk(s.events) if isinstance(ev, ir.Return) and not ctx.inl for x in value_leaves(ev.value)]
    for v in returned + value_leaves(s.ret):
        if v == p or v in built or v in (("const", None), ir.RAISES, ("raise",)):
            continue
        run.fail("DISPATCH", "fresh-wrapper", f"{s.path}:{s.fn.lineno}", fq, f"returns {ir.show_nl(v)[:100]}",
                 f"validate_model_function must return the callable itself or a wrapper it has just built around it; it can "
                 f"return {ir.show_nl(v)[:140]} -- an object kept from an earlier call (a wrapper built for another method "
                 f"of the same model, carrying that wrapper's state)")
        break
    wanted = getattr(run, "_wanted", None)      # included into another check for some rules only: the count is that check's business
    run.need(wanted is not None or len([1 for o in run.obligations if o["rule"] == "DISPATCH"]) >= 3 or run.findings,
             "validator dispatch arms not found")


_B = "ixai/utils/wrappers/base.py"
_S = "ixai/utils/wrappers/sklearn.py"
_R = "ixai/utils/wrappers/river.py"
_T = "ixai/utils/wrappers/torch.py"
_V = "ixai/utils/validators/model.py"
_NEW = ("        y_prediction = np.asarray(y_prediction)\n        if y_prediction.size == 1:  # scalar or size-1 array of any dimension\n            try:\n"
        "                return {self.default_label: float(y_prediction.item())}\n            except ValueError as e:  # y_prediction is probably a size-1 array containing a string\n"
        "                raise ValueError(f\"Prediction is probably a string: {y_prediction}. Only numeric values allowed. \"\n                                 f\"Exception is raised: {e}.\")\n"
        "        y_prediction = y_prediction.flatten()\n        return {i: y_prediction[i] for i in range(y_prediction.shape[0])}\n")
_OLD = ("        try:\n            return {self.default_label: float(y_prediction)}\n        except TypeError:  # y_prediction is not a size-1 array or real_valued number\n"
        "            y_prediction = y_prediction.flatten()\n            y_prediction = {i: y_prediction[i] for i in range(y_prediction.shape[0])}\n"
        "        except ValueError as e:  # y_prediction is probably a size-1 array containing a string\n"
        "            raise ValueError(f\"Prediction is probably a string: {y_prediction}. Only numeric values allowed. \"\n                             f\"Exception is raised: {e}.\")\n        return y_prediction\n")
WITNESSES = [
    ("float(ndarray) in try/except (pre-repair)", [(_B, _NEW, _OLD)]),
    ("float() of the size-one array itself", [(_B, "float(y_prediction.item())", "float(y_prediction)")]),
    ("2d projection skipped when the first row is ordered", [(_B, "            if self._feature_names is not None:\n                x_input_i = [x_dicts[i][feature] for feature in self._feature_names]",
                                                              "            if self._feature_names is not None and list(x_dicts[0]) != list(self._feature_names):\n                x_input_i = [x_dicts[i][feature] for feature in self._feature_names]")]),
    ("1d projection dropped", [(_B, "        if self._feature_names is not None:\n            x_dict = {feature: x_dict[feature] for feature in self._feature_names}\n", "")]),
    ("sklearn list path converts the whole batch", [(_S, "[self.convert_arr_output_to_dict(y_predictions[i]) for i in range(len(y_predictions))]", "[self.convert_arr_output_to_dict(y_predictions) for i in range(len(y_predictions))]")]),
    ("torch batch output flattened", [(_T, "        y_predictions = self._prediction_function(x_input).detach().cpu().numpy()\n        y_prediction = [", "        y_predictions = self._prediction_function(x_input).detach().cpu().numpy()\n        if y_predictions.ndim > 1 and 1 in y_predictions.shape:\n            y_predictions = y_predictions.flatten()\n        y_prediction = [")]),
    ("river: label added after the dict is built", [(_R, "            self._seen_labels.add(y_prediction)\n            output = {label: 0. for label in self._seen_labels}\n            output[y_prediction] = 1.\n",
                                                     "            output = {label: 0. for label in self._seen_labels}\n            output[y_prediction] = 1.\n            self._seen_labels.add(y_prediction)\n")]),
    ("river: batch labels registered first", [(_R, "        return [self._extend_dict(self._prediction_function(x_i)) for x_i in x]\n",
                                               "        raw = [self._prediction_function(x_i) for x_i in x]\n        for r in raw:\n            if isinstance(r, str):\n                self._seen_labels.add(r)\n        return [self._extend_dict(r) for r in raw]\n")]),
    ("validator wraps Wrapper instances again", [(_V, "    if isinstance(model_function, Wrapper):\n        return model_function  # we assume the wrapper is applied correctly\n\n", "")]),
    ("sklearn functions wrapped as river", [(_V, "return SklearnWrapper(prediction_function=model_function)", "return RiverWrapper(prediction_function=model_function)")]),
    ("last output of a vector dropped", [(_B, "for i in range(y_prediction.shape[0])}", "for i in range(y_prediction.shape[0] - 1)}")]),
]
SILENT = [
    ("flat[0] extraction", [(_B, "float(y_prediction.item())", "float(y_prediction.flatten()[0])")]),
    ("ravel instead of flatten", [(_B, "y_prediction = y_prediction.flatten()", "y_prediction = y_prediction.ravel()")]),
]
