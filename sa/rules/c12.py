"""C12 -- MultiValueTracker: independent per-key statistics, zero-fill, safe normalising.

Typestate over every (exception-aware) path of one iteration of the update loops, plus FORMULA and
ZERODIV on get_normalized:
 U1 every key of the *unfiltered* argument gets exactly one `update(values[key])` on its own tracker;
 U2 an unseen key first gets a fresh deepcopy of the base tracker and is registered;
 U3 every tracked key absent from the argument gets exactly one `update(0)`, unconditionally;
 U4 N grows by exactly one; nothing else is written; keys/trackers are never removed in the class;
 N1 <= 1 key: raw values; zero sum: all 0.0 selected by an explicit `== 0` test (NumPy scalars do not
    raise ZeroDivisionError); otherwise every value divided by the sum of all values.
"""
from .. import ir
from ..paths import paths, walk, root, Raised
from ..report import AnalysisError
from .algebra import identical
from .common import nonempty_test, const_value, zero_test, nonzero_test, return_cases

META = {
    "explanation": "Typestate/COUNT over exception-aware paths of MultiValueTracker.update (per-iteration paths of the "
                   "present-key loop and of the zero-fill loop), provenance of new trackers (fresh deepcopy of the "
                   "base tracker), NOMUT on the key set, and FORMULA/ZERODIV on get/get_normalized: the zero-sum "
                   "fallback must be selected by a dominating explicit comparison with 0.",
    "trusted_base": ["dict/set semantics", "copy.deepcopy yields an independent tracker",
                     "NumPy scalar division by zero yields inf/nan without raising"],
    "assumptions": ["the base tracker's update/get are decided by C10"],
}
META["explanation"] += ' Also COPY (a copied multi-value tracker owns its per-key trackers and key set).'
META["explanation"] += ' Round 5: a base tracker kept inside a constructor-held partial is followed as a component of the state; deferred registration of new keys is not decided. HAZARD: constructs that do not mean what they look like, met in the analysed code (defaults evaluated once, class-level containers changed through self, dict.fromkeys with a shared mutable value, late-binding lambdas, truth value of objects that define __len__) are reported by every check.'
MIN_INSTANCES = {"TYPESTATE": 4, "FORMULA": 3, "ZERODIV": 1, "NOMUT": 1, "COPY": 1}
CLS = "MultiValueTracker"
REMOVERS = {"pop", "popitem", "remove", "discard", "clear", "difference_update", "intersection_update",
            "symmetric_difference_update", "__delitem__"}


def _keyset(t, values):
    """'all' if t enumerates exactly the keys (or items) of the parameter, 'filtered' if a subset by a
    condition, else None. Returns (verdict, items?)"""
    seen = 0
    while seen < 10:
        seen += 1
        if t == values:
            return "all", False
        if t[0] == "res" and t[2] in (".keys", ".items") and t[3] and t[3][0] == values:
            return "all", t[2] == ".items"
        if t[0] == "new" and t[2] in ("set", "list", "tuple", "frozenset", "sorted") and len(t[3]) == 1:
            t = t[3][0]
            continue
        if t[0] == "fn" and t[1] in ("sorted", "tuple", "frozenset", "iter") and len(t[2]) == 1:
            t = t[2][0]
            continue
        if t[0] == "comp":
            inner, items = _keyset(t[3], values)
            if inner is None:
                return None, False
            if t[6]:
                return "filtered", items
            if t[5] == ("elem", t[2]) or (items and t[5] == ("tget", ("elem", t[2]), 0)):
                return inner, False if items and t[5] != ("elem", t[2]) else items
            return None, False
        return None, False
    return None, False


class SharedState(Exception):
    def __init__(self, field, param, default, summary):
        super().__init__(field)
        self.field, self.param, self.default, self.summary = field, param, default, summary


def check(run):
    _check_own(run)
    # COPY: a copied multi-value tracker owns its per-key trackers and its key set
    from .copylib import copy_protocol
    prog = run.prog
    for cls in [prog.find_class(CLS)]:
        if cls is not None:
            copy_protocol(run, prog, cls)


def _check_own(run):
    prog = run.prog
    cls = prog.find_class(CLS)
    run.need(cls is not None, f"anchor class {CLS} vanished")
    try:
        _fields(prog, cls)
    except SharedState as e:
        run.fail("TYPESTATE", "init.own-state", f"{e.summary.path}:{e.summary.fn.lineno}", f"{CLS}.__init__",
                 f"self.{e.field} = {e.param} (default {e.default})",
                 f"the dict of per-key trackers must be created for each instance; self.{e.field} is the constructor "
                 f"argument `{e.param}` whose default `{e.default}` is evaluated once and shared by every tracker built "
                 f"without it (keys and values of different instances mix)")
        return
    _init(run, prog, cls)
    _update(run, prog, cls)
    _nomut(run, prog, cls)
    _getters(run, prog, cls)


def _state(s):
    """Fields after the constructor, without the collaborator objects whose own fields are listed as `owner.part`."""
    return {f: t for f, t in s.fields.items() if not any(g.startswith(f + ".") for g in s.fields)}


def _init(run, prog, cls):
    s = prog.summarise(cls, "__init__")
    run.analysed_fn(f"{CLS}.__init__")
    _, fn = prog.find_method(cls, "__init__")
    params = [a.arg for a in fn.args.args][1:]
    run.need(params, "MultiValueTracker.__init__ takes no base tracker")
    bp = ("param", params[0])
    base_fields = [f for f, t in _state(s).items() if bp in ir.subterms(t)]
    run.need(base_fields, "the base tracker is not stored")
    bf = base_fields[0]
    t = s.fields[bf]
    run.need(t[0] not in ("partial", "closure", "lambda"),
             f"the base tracker is kept inside a callable (self.{bf} = {ir.show_nl(t)[:80]}); what that callable hands out is "
             f"not decided")
    run.check(t[0] == "new" and t[2] == "deepcopy" and t[3] == (bp,), "TYPESTATE", "init.base-copy",
              f"{s.path}:{s.fn.lineno}", f"{CLS}.__init__", f"self.{bf} = {ir.show_nl(t)}",
              f"the base tracker must be deep-copied on construction (later use of the caller's object must not leak "
              f"into new keys); found self.{bf} = {ir.show_nl(t)}", f"self.{bf} = deepcopy(base)")
    for f in ("N",):
        run.check(const_value(s.fields.get(f, ("undef",))) == 0, "TYPESTATE", f"init.{f}", f"{s.path}:{s.fn.lineno}",
                  f"{CLS}.__init__", f"init {f}", f"{f} does not start at 0", f"{f} = 0")
    return bf


def _fields(prog, cls):
    s = prog.summarise(cls, "__init__")
    _, fn = prog.find_method(cls, "__init__")
    bp = ("param", [a.arg for a in fn.args.args][1])
    bf = [f for f, t in _state(s).items() if bp in ir.subterms(t)][0]
    dicts = [f for f, t in s.fields.items() if t[0] == "new" and t[2] == "dict"]
    if not dicts:
        # the per-key dict handed in (or defaulted) through the constructor: not a container of this instance
        import ast
        names = [a.arg for a in fn.args.args]
        defaults = dict(zip(names[len(names) - len(fn.args.defaults):], fn.args.defaults))
        for f, t in s.fields.items():
            leaves = [t] if t[0] != "gate" else [x for x in ir.subterms(t) if x[0] == "param"]
            for leaf in leaves:
                if leaf[0] == "param" and leaf != bp and isinstance(defaults.get(leaf[1]), (ast.Dict, ast.Call)):
                    raise SharedState(f, leaf[1], ast.unparse(defaults[leaf[1]]), s)
    sets = [f for f, t in s.fields.items() if t[0] == "new" and t[2] == "set"]
    if len(dicts) != 1 or len(sets) != 1:
        raise AnalysisError(f"MultiValueTracker state is not one dict + one key set: dicts={dicts} sets={sets}")
    return bf, dicts[0], sets[0]


def _update(run, prog, cls):
    s = prog.summarise(cls, "update")
    fq = f"{CLS}.update"
    run.analysed_fn(fq)
    bf, tf, kf = _fields(prog, cls)
    _, fn = prog.find_method(cls, "update")
    values = ("param", [a.arg for a in fn.args.args][1])
    T, K = ("field0", tf), ("field0", kf)
    loops = [(ev, ctx) for ev, ctx in walk(s.events, structural=True) if isinstance(ev, ir.Loop) and not ev.comp]
    present, zero = [], []
    for lp, ctx in loops:
        verdict, items = _keyset(lp.iter, values)
        if verdict is not None:
            present.append((lp, ctx, verdict, items))
        elif K in ir.subterms(lp.iter):
            zero.append((lp, ctx))
    run.need(present or zero, "update has no loop over the argument's keys")
    # ---- U1/U2 ---------------------------------------------------------------------------------
    if len(present) != 1:
        run.fail("TYPESTATE", "U1.loop", f"{s.path}:{s.fn.lineno}", fq, f"{len(present)} loops over the argument keys",
                 f"expected exactly one pass over the keys of the update, found {len(present)}")
    for lp, ctx, verdict, items in present:
        elem = ("elem", lp.lid)
        key = ("tget", elem, 0) if items else elem
        val_ok = (("tget", elem, 1),) if items else (("sub", values, elem),)
        if verdict == "filtered":
            run.fail("TYPESTATE", "U1.keys", f"{s.path}:{lp.line}", fq, f"filtered keys {ir.show_nl(lp.iter)}",
                     f"entries of the update are filtered before tracking ({ir.show_nl(lp.iter)}): omitted entries are "
                     f"treated as absent keys")
        if ctx.guards:
            run.fail("TYPESTATE", "U1.guard", f"{s.path}:{lp.line}", fq, f"guarded key loop {ir.show_nl(ctx.guards[0])}",
                     "the pass over the update's keys is conditional")
        ps = paths(lp.body, unroll=1, exc=True)
        run.analysed["paths"] += len(ps)
        bad = False
        for p in ps:
            creates = [e for e in p.events if isinstance(e, ir.SubStore) and e.cont == T]
            made = tuple(c.value for c in creates if c.key == key)
            ups = [e for e in p.events if isinstance(e, (ir.Mut, ir.Call)) and getattr(e, "method", None) == "update"
                   and _tracker_of(e, T, key, made)]
            adds = [e for e in p.events if isinstance(e, ir.Call) and e.callee == f"self.{kf}" and e.method == "add"]
            adds += [e for e in p.events if isinstance(e, ir.Mut) and e.recv == K and e.method == "add"]
            direct = [e for e in p.events if isinstance(e, ir.AttrStore) and root(e.obj) in (T,) + tuple(
                c.value for c in creates)]
            gtxt = " & ".join(ir.show_nl(g) for g in p.guards) or "always"
            if direct:
                bad = True
                run.fail("TYPESTATE", "U1.update", f"{s.path}:{direct[0].line}", fq,
                         f"tracker state written directly: {run.stmt_text(s.path, direct[0].line)}",
                         f"[{gtxt}] a per-key tracker's state is assigned directly instead of going through update()")
            if len(ups) != 1:
                bad = True
                line = ups[1].line if len(ups) > 1 else lp.line
                run.fail("TYPESTATE", "U1.update", f"{s.path}:{line}", fq, f"{len(ups)} updates per present key [{gtxt}]",
                         f"[{gtxt}] a key present in the update must be updated exactly once with its value; this "
                         f"path performs {len(ups)} updates")
            for u in ups:
                if tuple(u.args) not in (val_ok,):
                    bad = True
                    run.fail("TYPESTATE", "U1.value", f"{s.path}:{u.line}", fq,
                             f"update value {', '.join(ir.show_nl(a) for a in u.args)}",
                             f"[{gtxt}] the key's tracker is updated with {', '.join(ir.show_nl(a) for a in u.args)} "
                             f"instead of the value supplied for that key")
            for c in creates:
                if c.key != key:
                    continue
                v = c.value
                fresh = v[0] == "new" and v[2] == "deepcopy" and v[3] == (("field0", bf),)
                if not fresh:
                    bad = True
                    run.fail("TYPESTATE", "U2.fresh", f"{s.path}:{c.line}", fq, f"new tracker = {ir.show_nl(v)}",
                             f"[{gtxt}] a new key must get a fresh deepcopy of the base tracker, it gets {ir.show_nl(v)}")
                if not adds:
                    # the new keys may be collected in a container of the call and registered in one go afterwards:
                    # that bookkeeping is not followed -- no verdict
                    kept = [e.recv for e in p.events if isinstance(e, ir.Mut) and e.method in ("append", "add", "insert")
                            and key in e.args and e.recv[0] == "new"]
                    for ev, _ in walk(s.events):
                        if isinstance(ev, (ir.Mut, ir.Call)) and getattr(ev, "method", None) in ("update", "__ior__") and \
                                (getattr(ev, "recv", None) == K or getattr(ev, "callee", None) == f"self.{kf}") and \
                                any(k in ir.subterms(a) for a in ev.args for k in kept):
                            raise AnalysisError(f"{fq}: new keys are collected in a local container and registered later "
                                                f"(line {ev.line}); this bookkeeping is not decided")
                    bad = True
                    run.fail("TYPESTATE", "U2.register", f"{s.path}:{c.line}", fq, "new key not registered",
                             f"[{gtxt}] a tracker is created for a new key but the key is not added to the tracked keys")
            if creates and ups:
                order = {id(e): i for i, e in enumerate(p.events)}
                if order[id(ups[0])] < order[id(creates[0])]:
                    bad = True
                    run.fail("TYPESTATE", "U2.order", f"{s.path}:{creates[0].line}", fq, "update before creation",
                             f"[{gtxt}] the tracker is updated before it is created")
        if not bad:
            run.ok("TYPESTATE", "U1.update", f"{len(ps)} per-iteration paths (incl. KeyError edges): one update(values[key]) each")
            run.ok("TYPESTATE", "U2.fresh", "new key: deepcopy(base tracker), registered, then updated")
    # ---- U2 (bulk registration): trackers may also enter the dict through dict.update / setdefault / |= ------
    for ev, ctx in walk(s.events):
        bulk = None
        if isinstance(ev, ir.Call) and ev.callee == f"self.{tf}" and ev.method in ("update", "setdefault", "__ior__"):
            bulk = ev
        elif isinstance(ev, ir.Mut) and ev.recv == T and ev.method in ("update", "setdefault", "__ior__"):
            bulk = ev
        elif isinstance(ev, ir.Store) and ev.field == tf and ev.aug is not None:
            bulk = ev
        if bulk is None:
            continue
        d = (bulk.args[-1] if bulk.args else None) if not isinstance(bulk, ir.Store) else bulk.value
        if isinstance(bulk, ir.Store) and d is not None and d[0] == "op":
            d = d[3]
        vals = []
        if d is not None and d[0] == "comp" and d[1] == "dict":
            vals = [(d[5], d[2])]
        elif d is not None and d[0] == "new" and d[2] == "dict":
            vals = [(i[2], None) for i in d[3] if i[0] == "kv"]
        elif bulk.method == "setdefault" if not isinstance(bulk, ir.Store) else False:
            vals = [(bulk.args[1], None)] if len(bulk.args) > 1 else []
            lp = ctx.loops[-1] if ctx.loops else None
            vals = [(v, lp.lid if lp else None) for v, _ in vals]
        if not vals:
            raise AnalysisError(f"{fq}: trackers are written into the per-key dict in a way that is not followed: "
                                f"{run.stmt_text(s.path, bulk.line)}")
        for v, lid in vals:
            fresh = v[0] == "new" and v[2] == "deepcopy" and v[3] == (("field0", bf),)
            per_key = fresh and (lid is None or lid in (ir.site_loops(v) or ()))
            why = "" if per_key else ("one deep copy is made outside the per-key loop and shared by all new keys (their "
                                      "updates accumulate in one tracker)" if fresh else f"it gets {ir.show_nl(v)[:100]}")
            run.check(per_key, "TYPESTATE", "U2.fresh", f"{s.path}:{bulk.line}", fq, f"bulk registration: {why or 'ok'}",
                      f"every new key must get its own fresh deepcopy of the base tracker: {why}",
                      "bulk registration: one deepcopy(base) per new key")
    # ---- U3 ------------------------------------------------------------------------------------
    if len(zero) != 1:
        run.fail("TYPESTATE", "U3.loop", f"{s.path}:{s.fn.lineno}", fq, f"{len(zero)} zero-fill loops",
                 f"expected exactly one zero-fill pass over the tracked keys missing from the update, found {len(zero)}")
    for lp, ctx in zero:
        elem = ("elem", lp.lid)
        it = lp.iter
        sit = ir.strip_sites(it)
        allkeys = None
        for alt in _key_iter_forms(values):
            if sit == ("op", "-", K, alt):
                allkeys = True
        if allkeys is None and it[0] == "comp" and it[3] == K and len(it[6]) == 1:
            c = ir.strip_sites(it[6][0])
            if c[0] == "cmp" and c[1] == "not in" and c[2] == ("elem", it[2]) and c[3] in _key_iter_forms(values):
                allkeys = True
        if allkeys is None:
            run.fail("TYPESTATE", "U3.set", f"{s.path}:{lp.line}", fq, f"zero-fill over {ir.show_nl(it)}",
                     f"zero-fill must range over (tracked keys - keys of the update); it ranges over {ir.show_nl(it)}")
        real_guards = [g for g in ctx.guards if not nonempty_test(g, it)]
        if real_guards:
            run.fail("TYPESTATE", "U3.guard", f"{s.path}:{lp.line}", fq,
                     f"guarded zero-fill: {ir.show_nl(real_guards[-1])}",
                     f"the zero-fill pass only runs when {ir.show_nl(real_guards[-1])}: a tracked key omitted from an "
                     f"update can go stale")
        ps = paths(lp.body, unroll=1, exc=True)
        ok = True
        for p in ps:
            ups = [e for e in p.events if isinstance(e, (ir.Mut, ir.Call)) and getattr(e, "method", None) == "update"
                   and _tracker_of(e, T, elem)]
            if len(ups) != 1 or tuple(ups[0].args) not in ((("const", 0),), (("const", 0.0),)):
                ok = False
                got = ", ".join(ir.show_nl(a) for u in ups for a in u.args) or "no update"
                run.fail("TYPESTATE", "U3.zero", f"{s.path}:{lp.line}", fq, f"zero-fill performs: {got}",
                         f"a tracked key missing from the update must be updated exactly once with 0; found: {got}")
        if ok and allkeys and not real_guards:
            run.ok("TYPESTATE", "U3.zero", "every tracked key absent from the update gets exactly one update(0)")
    # ---- U4 ------------------------------------------------------------------------------------
    n1 = s.fields.get("N", ("field0", "N"))
    ok, info = identical(n1, ("op", "+", ("field0", "N"), ("const", 1)))
    run.check(ok, "TYPESTATE", "U4.N", f"{s.path}:{s.fn.lineno}", fq, f"N' = {ir.show_nl(n1)}",
              f"the update count must grow by exactly one per call; {info if not ok else ''}", "N' = N + 1")
    for f, t in s.fields.items():
        if f not in ("N",) and t != ("field0", f):
            run.fail("TYPESTATE", "U4.frame", f"{s.path}:{s.fn.lineno}", fq, f"update rebinds self.{f}",
                     f"update rebinds self.{f} to {ir.show_nl(t)}")


def _key_iter_forms(values):
    """Site-stripped forms denoting the key set of the argument."""
    k = ("res", "@", ".keys", (values,), ())
    return [values, ("new", "@", "set", (values,)), ("new", "@", "set", (k,)), k,
            ("fn", "frozenset", (values,)), ("fn", "frozenset", (k,))]


def _tracker_of(e, T, key, created=()):
    """The receiver is the key's tracker: T[key], or the very object stored into T[key] on this path."""
    recv = e.recv
    return recv == ("sub", T, key) or recv in created


def _nomut(run, prog, cls):
    bf, tf, kf = _fields(prog, cls)
    bad = []
    n = 0
    for name in cls.methods:
        try:
            s = prog.summarise(cls, name)
        except ir.Unsupported:
            continue
        n += 1
        for ev, ctx in walk(s.events):
            if isinstance(ev, ir.Call) and ev.callee in (f"self.{tf}", f"self.{kf}") and ev.method in REMOVERS:
                bad.append((s, ev.line, f"{ev.callee}.{ev.method}"))
            if isinstance(ev, ir.Mut) and root(ev.recv) in (("field0", tf), ("field0", kf)) and ev.method in REMOVERS \
                    and ev.recv in (("field0", tf), ("field0", kf)):
                bad.append((s, ev.line, f"{ir.show_nl(ev.recv)}.{ev.method}"))
            if isinstance(ev, ir.Del) and root(ev.cont) in (("field0", tf), ("field0", kf)):
                bad.append((s, ev.line, "del"))
            if isinstance(ev, ir.Store) and ev.field in (tf, kf) and name != "__init__":
                bad.append((s, ev.line, f"rebinds self.{ev.field}"))
    for s, line, what in bad:
        run.fail("NOMUT", f"{CLS}.{s.fn.name}", f"{s.path}:{line}", f"{CLS}.{s.fn.name}", f"key removal: {what}",
                 f"keys are never dropped: {what} at line {line} removes/rebinds tracked state")
    if not bad:
        run.ok("NOMUT", CLS, f"{n} methods scanned: no removal from the tracker dict or the key set")


def _getters(run, prog, cls):
    bf, tf, kf = _fields(prog, cls)
    T, K = ("field0", tf), ("field0", kf)
    for name in ("get", "__call__"):
        s = prog.summarise(cls, name)
        run.analysed_fn(f"{CLS}.{name}")
        r = s.ret
        ok = r[0] == "comp" and r[1] == "dict" and r[3] in (K, T) and not r[6] and r[4] == ("elem", r[2]) and \
            r[5][0] == "res" and r[5][2] in (".get", "expr-call", ".__call__") and r[5][3] and \
            r[5][3][0] == ("sub", T, ("elem", r[2]))
        run.check(ok, "FORMULA", f"{name}", f"{s.path}:{s.fn.lineno}", f"{CLS}.{name}", f"{name} returns {ir.show_nl(r)}",
                  f"{name}() must report every tracked key with its own tracker's value; it returns {ir.show_nl(r)}",
                  f"{name} = {{k: trackers[k].get() for k in tracked keys}}")
    s = prog.summarise(cls, "get_normalized")
    fq = f"{CLS}.get_normalized"
    run.analysed_fn(fq)
    raw = prog.summarise(cls, "get").ret
    # rebuild `raw` as it appears inlined in get_normalized (loop ids differ): locate by shape
    rets = [(ev, ctx) for ev, ctx in walk(s.events) if isinstance(ev, ir.Return) and not ctx.inl]
    run.need(rets, "get_normalized has no return")
    raws = [t for t in ir.subterms(s.ret) if t[0] == "comp" and t[1] == "dict" and t[3] in (K, T) and
            t[5][0] == "res" and t[5][2] in (".get", "expr-call")]
    run.need(raws, "get_normalized does not start from the tracked values")
    rawt = raws[0]
    total_forms = []
    for t in ir.subterms(s.ret):
        if t[0] == "fn" and t[1] == "sum" and len(t[2]) == 1:
            a = t[2][0]
            if (a[0] == "res" and a[2] == ".values" and a[3][0] == rawt) or \
                    (a[0] == "comp" and a[3] == rawt) or a == rawt:
                if a != rawt:
                    total_forms.append(t)
    seen_kinds = set()
    # the keys of the raw dict when it is the display {k: ... for k in KEYS} (iterating it is iterating KEYS)
    raw_keys = rawt[3] if rawt[0] == "comp" and rawt[1] == "dict" and not rawt[6] and rawt[4] == ("elem", rawt[2]) else ("?",)
    tries = [ev for ev, _ in walk(s.events, structural=True) if isinstance(ev, ir.Try)]
    from .boolalg import holds
    for guards, v, line, ctx in return_cases(s):
        gtxt = " & ".join(ir.show_nl(g) for g in guards) or "always"
        in_handler = [h for t, h in ctx.tries if h != "body"]
        if v == rawt:
            few = any(holds(guards, ("cmp", op, ("fn", "len", (c,)), ("const", n)))
                      for c in (K, T, rawt) for op, n in (("<=", 1), ("<", 2)))
            run.check(few, "FORMULA", "N1.raw", f"{s.path}:{line}", fq, f"raw return under [{gtxt}]",
                      f"raw values may only be returned for at most one key; returned under [{gtxt}]",
                      "<= 1 key: raw values")
            seen_kinds.add("raw")
            continue
        if v[0] == "comp" and v[1] == "dict" and const_value(v[5]) == 0:
            zero_t = any(zero_test(g, total_forms) for g in guards)
            if in_handler and not zero_t:
                run.fail("ZERODIV", "N1.zero", f"{s.path}:{line}", fq,
                         f"zero fallback in `except {'/'.join(in_handler[0].exc)}`",
                         "the all-zero fallback is reached only through `except ZeroDivisionError`; NumPy scalar values "
                         "divide to inf/nan without raising, so a zero sum yields NaN/inf")
            else:
                run.check(zero_t, "ZERODIV", "N1.zero", f"{s.path}:{line}", fq, f"zero fallback under [{gtxt}]",
                          f"the all-zero result must be selected by an explicit test `sum == 0`; it is returned under [{gtxt}]",
                          "zero sum: explicit == 0 test selects the all-0.0 dict")
            keys_ok = v[3] == rawt or (v[3][0] == "res" and v[3][2] in (".keys", ".items") and v[3][3][0] == rawt) or \
                v[3] == raw_keys
            run.check(keys_ok and v[4] == ("elem", v[2]), "FORMULA", "N1.zero-keys", f"{s.path}:{line}", fq,
                      f"zero dict over {ir.show_nl(v[3])}",
                      "the all-zero result must cover every tracked key", "zeros for every tracked key")
            seen_kinds.add("zero")
            continue
        if v[0] == "comp" and v[1] == "dict" and v[5][0] == "op" and v[5][1] == "/":
            num, den = v[5][2], v[5][3]
            over_items = v[3][0] == "res" and v[3][2] == ".items" and v[3][3][0] == rawt
            shape = over_items and v[4] == ("tget", ("elem", v[2]), 0) and num == ("tget", ("elem", v[2]), 1)
            shape = shape or (v[3] in (rawt, raw_keys) and v[4] == ("elem", v[2]) and num == ("sub", rawt, ("elem", v[2])))
            run.check(shape and den in total_forms, "FORMULA", "N1.ratio", f"{s.path}:{line}", fq,
                      f"normalised value {ir.show_nl(v[5])}",
                      f"every value must be divided by the sum of all tracked values; found {ir.show_nl(v[5])}",
                      "value / sum(all values) for every key")
            nonzero = any(nonzero_test(g, total_forms) for g in guards)
            in_try = [t for t, h in ctx.tries if h == "body"]
            if not nonzero:
                how = "guarded only by `except ZeroDivisionError`" if in_try or tries else "unguarded"
                run.fail("ZERODIV", "N1.div", f"{s.path}:{line}", fq, f"division {how}",
                         f"the division by the sum is {how}: NumPy scalars do not raise on a zero sum, the result is "
                         f"inf/nan instead of all zeros")
            else:
                run.ok("ZERODIV", "N1.div", "division dominated by an explicit sum != 0 test")
            seen_kinds.add("ratio")
            continue
        zd = [t for t in tries if any("ZeroDivisionError" in x for h in t.handlers for x in h.exc)]
        if v[0] == "tryphi" and zd:
            run.fail("ZERODIV", "N1.div", f"{s.path}:{zd[0].line}", fq, "division guarded only by `except ZeroDivisionError`",
                     "the zero-sum fallback relies on `except ZeroDivisionError`: NumPy scalars do not raise on a zero "
                     "sum, the result is inf/nan instead of all zeros")
            seen_kinds.update({"zero", "ratio"})
            continue
        run.fail("FORMULA", "N1.shape", f"{s.path}:{line}", fq, f"returns {ir.show_nl(v)[:120]}",
                 f"unexpected result shape {ir.show_nl(v)[:200]}")
    run.check({"raw", "zero", "ratio"} <= seen_kinds, "FORMULA", "N1.cases", f"{s.path}:{s.fn.lineno}", fq,
              f"cases {sorted(seen_kinds)}", f"get_normalized must distinguish <=1 key / zero sum / general; found {sorted(seen_kinds)}",
              "three cases present")


def _is_zero_test(g, totals):
    return g[0] == "cmp" and g[1] == "==" and ((g[2] in totals and const_value(g[3]) == 0) or
                                               (g[3] in totals and const_value(g[2]) == 0))


def _is_nonzero(g, totals):
    if g[0] == "cmp" and g[1] == "!=" and ((g[2] in totals and const_value(g[3]) == 0) or
                                           (g[3] in totals and const_value(g[2]) == 0)):
        return True
    return g in totals


_M = "ixai/utils/tracker/multi_value.py"
_NORM_NEW = ("        total = sum(tracked_values.values())\n        if total == 0:\n            return {key: 0. for key in tracked_values.keys()}\n"
             "        return {key: value / total for key, value in tracked_values.items()}\n")
_NORM_OLD = ("        try:\n            tracked_values = {key: value / sum(tracked_values.values()) for key, value in tracked_values.items()}\n"
             "        except ZeroDivisionError:\n            tracked_values = {key: 0. for key in tracked_values.keys()}\n        return tracked_values\n")
WITNESSES = [
    ("zero-sum fallback via except ZeroDivisionError (pre-repair)", [(_M, _NORM_NEW, _NORM_OLD)]),
    ("new keys share the base tracker", [(_M, "self.tracked_value[key] = copy.deepcopy(self._base_tracker)", "self.tracked_value[key] = self._base_tracker")]),
    ("new keys get a shallow copy", [(_M, "self.tracked_value[key] = copy.deepcopy(self._base_tracker)", "self.tracked_value[key] = copy.copy(self._base_tracker)")]),
    ("zero-fill dropped", [(_M, "        for key in self._tracked_keys - keys_in_update:\n            self.tracked_value[key].update(0)  # is zero the right value to add?\n", "")]),
    ("zero-fill with 1", [(_M, "self.tracked_value[key].update(0)", "self.tracked_value[key].update(1)")]),
    ("zero-fill only when fewer keys", [(_M, "        for key in self._tracked_keys - keys_in_update:\n            self.tracked_value[key].update(0)",
                                         "        missing = len(keys_in_update) < len(self._tracked_keys)\n        for key in (self._tracked_keys - keys_in_update) if missing else ():\n            self.tracked_value[key].update(0)")]),
    ("base tracker kept by reference", [(_M, "self._base_tracker = copy.deepcopy(base_tracker)", "self._base_tracker = base_tracker")]),
    ("normalise by max", [(_M, "total = sum(tracked_values.values())", "total = max(tracked_values.values())")]),
    ("stale keys dropped", [(_M, "        self.N += 1\n        return self\n", "        for key in list(self._tracked_keys - keys_in_update):\n            self._tracked_keys.discard(key)\n        self.N += 1\n        return self\n")]),
    ("numeric filter on the update", [(_M, "        keys_in_update = set(values.keys())\n", "        values = {k: v for k, v in values.items() if isinstance(v, (int, float))}\n        keys_in_update = set(values.keys())\n")]),
    ("new key seeded directly", [(_M, "                self.tracked_value[key].update(values[key])\n                self._tracked_keys.add(key)", "                self.tracked_value[key].tracked_value = values[key]\n                self.tracked_value[key].N = 1\n                self._tracked_keys.add(key)")]),
    ("double count", [(_M, "        self.N += 1\n        return self", "        self.N += len(values)\n        return self")]),
]
SILENT = [
    ("membership test instead of try", [(_M, "            try:\n                self.tracked_value[key].update(values[key])\n            except KeyError:\n                self.tracked_value[key] = copy.deepcopy(self._base_tracker)\n                self.tracked_value[key].update(values[key])\n                self._tracked_keys.add(key)\n",
                                         "            if key not in self.tracked_value:\n                self.tracked_value[key] = copy.deepcopy(self._base_tracker)\n                self._tracked_keys.add(key)\n            self.tracked_value[key].update(values[key])\n")]),
    ("iterate the dict directly", [(_M, "keys_in_update = set(values.keys())", "keys_in_update = set(values)")]),
]
