"""Shared helpers for the rule modules: term patterns, role inference (DESIGN.md 3.2), builders."""
import ast
from fractions import Fraction

from .. import ir
from ..paths import walk, strip_gates, root
from ..report import AnalysisError


# ------------------------------------------------------------------------------------------------
# term patterns
# ------------------------------------------------------------------------------------------------
class V:
    """Capture variable: binds on first use, must match the same term afterwards."""
    def __init__(self, name, pred=None):
        self.name, self.pred = name, pred

    def __repr__(self):
        return f"?{self.name}"


class _Any:
    def __repr__(self):
        return "_"


ANY = _Any()


def match(pat, term, b=None):
    """Structural match of `term` against `pat`; returns bindings dict or None."""
    b = {} if b is None else b
    return b if _m(pat, term, b) else None


def _m(pat, term, b):
    if pat is ANY:
        return True
    if isinstance(pat, V):
        if pat.pred is not None and not pat.pred(term):
            return False
        if pat.name in b:
            return b[pat.name] == term
        b[pat.name] = term
        return True
    if callable(pat) and not isinstance(pat, tuple):
        return bool(pat(term))
    if isinstance(pat, tuple):
        if not isinstance(term, tuple) or len(pat) != len(term):
            return False
        return all(_m(p, t, b) for p, t in zip(pat, term))
    return pat == term


def is_call_res(t, callee=None, suffix=None):
    return isinstance(t, tuple) and t and t[0] == "res" and (callee is None or t[2] == callee) and \
        (suffix is None or t[2].endswith(suffix))


def kwargs_of(t):
    """kwargs tuple of a res/draw term as dict."""
    return dict(t[4])


def call_arg(ev_or_term, index, name):
    """Positional-or-keyword argument of a Call event / res term; None if absent."""
    if isinstance(ev_or_term, ir.Call) or isinstance(ev_or_term, ir.Construct) or isinstance(ev_or_term, ir.Draw):
        args, kwargs = ev_or_term.args, dict(ev_or_term.kwargs)
    else:
        args, kwargs = ev_or_term[3], dict(ev_or_term[4])
    if index is not None and index < len(args):
        return args[index]
    return kwargs.get(name)


def new_items(t):
    """(positional items, {kw: value}) of a ("new", site, kind, items) term."""
    pos = [x for x in t[3] if not (isinstance(x, tuple) and x and x[0] == "kw")]
    kw = {x[1]: x[2] for x in t[3] if isinstance(x, tuple) and x and x[0] == "kw"}
    return pos, kw


# ------------------------------------------------------------------------------------------------
# events
# ------------------------------------------------------------------------------------------------
def calls(events, callee=None, method=None, pred=None):
    out = []
    for ev, ctx in walk(events):
        if isinstance(ev, ir.Call) and (callee is None or ev.callee == callee) and \
                (method is None or ev.method == method) and (pred is None or pred(ev)):
            out.append((ev, ctx))
    return out


def stores(events, field=None):
    return [(ev, ctx) for ev, ctx in walk(events) if isinstance(ev, ir.Store) and (field is None or ev.field == field)]


def draws(events):
    return [(ev, ctx) for ev, ctx in walk(events) if isinstance(ev, ir.Draw)]


def event_index(events):
    """Program-order index of every leaf event (by identity)."""
    return {id(ev): i for i, (ev, _) in enumerate(walk(events))}


def in_loop(ctx, loop):
    return any(l is loop for l in ctx.loops)


def loop_ids(ctx):
    return tuple(l.lid for l in ctx.loops)


class DictBuild:
    """A dict built by a comprehension or by an accumulator loop: entries = [(key, value, ctx, event)];
    `over` = the iterable the (single) key ranges over when keys are loop elements."""
    def __init__(self, term, entries, over, lid, kind, init_items):
        self.term, self.entries, self.over, self.lid, self.kind, self.init_items = \
            term, entries, over, lid, kind, init_items


def dict_build(term, events):
    """Normalise a dict-valued term (comprehension or `{}` + subscript stores) to a DictBuild."""
    if not isinstance(term, tuple):
        return None
    if term[0] == "comp" and term[1] == "dict":
        return DictBuild(term, [(term[4], term[5], None, None)], term[3], term[2], "comp", ())
    if term[0] == "new" and term[2] == "dict":
        entries, over, lid = [], None, None
        for ev, ctx in walk(events):
            stores = []
            if isinstance(ev, ir.SubStore) and ev.cont == term:
                stores.append((ev.key, ev.value))
            elif isinstance(ev, ir.Mut) and ev.recv == term and ev.method == "update" and len(ev.args) == 1 and \
                    not ev.kwargs and ev.args[0][0] == "new" and ev.args[0][2] == "dict" and \
                    all(i[0] == "kv" for i in ev.args[0][3]):
                stores.extend((i[1], i[2]) for i in ev.args[0][3])      # acc.update({k: v, ...})
            for key, value in stores:
                entries.append((key, value, ctx, ev))
                if key[0] == "elem":
                    for l in ctx.loops:
                        if l.lid == key[1]:
                            over, lid = l.iter, l.lid
        return DictBuild(term, entries, over, lid, "accum", term[3])
    return None


class ListBuild:
    def __init__(self, term, entries, kind, over, lid):
        self.term, self.entries, self.kind, self.over, self.lid = term, entries, kind, over, lid


def list_build(term, events):
    """Normalise a list-valued term (comprehension or `[]` + append) to a ListBuild
    (entries: [(value, ctx, event)])."""
    if not isinstance(term, tuple):
        return None
    if term[0] == "comp" and term[1] in ("list", "gen"):
        return ListBuild(term, [(term[5], None, None)], "comp", term[3], term[2])
    if term[0] == "new" and term[2] == "list":
        entries = []
        over = lid = None
        for ev, ctx in walk(events):
            if isinstance(ev, ir.Mut) and ev.recv == term and ev.method in ("append", "insert", "extend"):
                entries.append((ev.args[-1] if ev.args else None, ctx, ev))
                if ctx.loops:
                    over, lid = ctx.loops[-1].iter, ctx.loops[-1].lid
        return ListBuild(term, entries, "accum", over, lid)
    return None


# ------------------------------------------------------------------------------------------------
# numeric helpers
# ------------------------------------------------------------------------------------------------
def const_value(t):
    """Fraction value of a constant arithmetic term, else None."""
    if not isinstance(t, tuple):
        return None
    if t[0] == "const" and isinstance(t[1], (int, float)) and not isinstance(t[1], bool):
        return Fraction(t[1])
    if t[0] == "neg":
        v = const_value(t[1])
        return -v if v is not None else None
    if t[0] == "op" and t[1] in "+-*/" or (t[0] == "op" and t[1] == "**"):
        a, b = const_value(t[2]), const_value(t[3])
        if a is None or b is None:
            return None
        try:
            if t[1] == "+":
                return a + b
            if t[1] == "-":
                return a - b
            if t[1] == "*":
                return a * b
            if t[1] == "/":
                return a / b
            if t[1] == "**" and b.denominator == 1 and abs(b) < 64:
                return a ** int(b)
        except ZeroDivisionError:
            return None
    return None


def substitute(t, mapping):
    """Replace subterms (exact matches) according to mapping."""
    if t in mapping:
        return mapping[t]
    if isinstance(t, tuple):
        return tuple(substitute(x, mapping) if isinstance(x, tuple) else x for x in t)
    return t


def single_pass(run, prog, classes, rule):
    """A parameter that a method walks more than once (a loop after a validation pass, two comprehensions) must be
    something that can be walked twice: with a generator, a map object or any other one-shot iterable the second walk
    finds nothing, and the method returns normally having absorbed none of the values."""
    CONSUMERS = {"list", "tuple", "set", "frozenset", "sorted", "sum", "min", "max", "any", "all", "dict", "enumerate", "zip",
                 "map", "filter", "iter", "np.fromiter", "numpy.fromiter", "np.array", "numpy.array", "np.asarray",
                 "numpy.asarray", "np.sum", "np.mean", "numpy.sum", "numpy.mean", "np.isfinite", "np.all", "np.any"}
    n = 0
    for cls in classes:
        for k in prog.mro(cls):
            for mname, fn in k.methods.items():
                if prog.find_method(cls, mname)[1] is not fn or not fn.args.args:
                    continue
                params = [a.arg for a in fn.args.args[1:] + fn.args.kwonlyargs]
                for p in params:
                    if any(isinstance(x, ast.Name) and x.id == p and isinstance(x.ctx, ast.Store) for x in ast.walk(fn)):
                        continue                # rebound (e.g. materialised with list(...)) before use
                    walks = []
                    for x in ast.walk(fn):
                        if isinstance(x, (ast.For, ast.comprehension)) and isinstance(x.iter, ast.Name) and x.iter.id == p:
                            walks.append(getattr(x, "lineno", getattr(x.iter, "lineno", fn.lineno)))
                        elif isinstance(x, ast.Call) and ast.unparse(x.func) in CONSUMERS and \
                                any(isinstance(a, ast.Name) and a.id == p for a in x.args):
                            walks.append(x.lineno)
                    ann = next((a.annotation for a in fn.args.args + fn.args.kwonlyargs if a.arg == p), None)
                    one_shot_ok = ann is not None and any(w in ast.unparse(ann) for w in ("Iterable", "Iterator", "Generator"))
                    if len(walks) >= 2 and one_shot_ok:
                        n += 1
                        run.fail(rule, f"{cls.name}.{mname}.single-pass", f"{k.module.path}:{sorted(walks)[1]}", f"{k.name}.{mname}",
                                 f"`{p}` walked at lines {sorted(walks)}",
                                 f"{k.name}.{mname} walks its argument `{p}` (declared {ast.unparse(ann)}) {len(walks)} times: a "
                                 f"generator or any other one-shot iterable is used up by the first walk, so the later one sees "
                                 f"nothing -- the call returns normally and none of the values has been absorbed")
    if not n:
        run.ok(rule, "single-pass", "no method walks an iterable argument twice")


def numeric_mode(run, prog, rule):
    """No module of the package changes the process-wide floating-point error handling: under NumPy's defaults an
    underflow or an intermediate overflow of a NumPy scalar yields 0 / inf silently; after `np.seterr(all="raise")`
    (or under="raise") the same finite, legal stream makes the unchanged tracker arithmetic raise FloatingPointError."""
    hits = []
    for m in prog.modules.values():
        for n in ast.walk(m.tree):
            if isinstance(n, ast.Call):
                d = prog.dotted_of(m, n.func) if isinstance(n.func, (ast.Attribute, ast.Name)) else None
                if d is None and isinstance(n.func, ast.Name):
                    r = prog.resolve_name(m, n.func.id)
                    d = r[1] if r and r[0] == "ext" else None
                if d in ("numpy.seterr", "numpy.seterrcall", "numpy.seterrobj"):
                    hits.append((m, n, d))
    for m, n, d in hits:
        run.fail(rule, f"numeric-mode:{m.name}", f"{m.path}:{n.lineno}", m.name, f"{d}({', '.join(ast.unparse(a) for a in n.args)}"
                 f"{', ' if n.args and n.keywords else ''}{', '.join(k.arg + '=' + ast.unparse(k.value) for k in n.keywords if k.arg)})",
                 f"{d} changes the floating-point error handling of the whole process: with NumPy-scalar inputs a harmless "
                 f"underflow (an exponentially smoothed value decaying towards 0, a tiny squared deviation) then raises "
                 f"FloatingPointError inside the unchanged tracker code, for finite legal streams")
    if not hits:
        run.ok(rule, "numeric-mode", "no module changes NumPy's process-wide error handling")


def welford_roles(prog, W):
    """Which fields of the Welford tracker play the three parts, found from what the code does with them and not from
    their names: {"N": update counter, "tracked_value": running mean, "sum_squares": second-moment accumulator}.
    Falls back to the conventional names for a part that cannot be told."""
    roles = {"N": "N", "tracked_value": "tracked_value", "sum_squares": "sum_squares"}
    try:
        upd = prog.summarise(W, "update")
        _, fn = prog.find_method(W, "update")
        v = ("param", [a.arg for a in fn.args.args][1])
        mean = None
        for g in ("get", "__call__"):
            if prog.find_method(W, g)[1] is not None:
                r = prog.summarise(W, g).ret
                read = sorted({t[1] for t in ir.subterms(r) if t[0] == "field0"})
                if len(read) == 1:
                    mean = read[0]      # the one field the reported value is computed from
                    break
        counters = [f for f, t in upd.fields.items() if t == ("op", "+", ("field0", f), ("const", 1))]
        moved = [f for f, t in upd.fields.items() if v in ir.subterms(t)]
        if mean in moved and len(counters) == 1 and counters[0] not in moved:
            rest = [f for f in moved if f != mean]
            if len(rest) == 1:
                roles = {"N": counters[0], "tracked_value": mean, "sum_squares": rest[0]}
    except (ir.Unsupported, IndexError):
        pass
    return roles


def fold_minmax(t):
    """Fold max/min/abs over constant arguments (used after substituting a counter value)."""
    if not isinstance(t, tuple) or not t:
        return t
    t = tuple(fold_minmax(x) if isinstance(x, tuple) else x for x in t)
    if t[0] == "fn" and t[1] in ("max", "min") and len(t[2]) >= 2:
        vals = [const_value(a) for a in t[2]]
        if all(v is not None for v in vals):
            v = max(vals) if t[1] == "max" else min(vals)
            return ("const", int(v) if v.denominator == 1 else float(v))
    if t[0] == "fn" and t[1] == "abs" and len(t[2]) == 1:
        v = const_value(t[2][0])
        if v is not None:
            v = abs(v)
            return ("const", int(v) if v.denominator == 1 else float(v))
    return t


def comparisons(cond):
    """Flatten a condition into a list of atomic comparison literals (conjunction)."""
    if cond[0] == "and":
        out = []
        for c in cond[1]:
            out += comparisons(c)
        return out
    return [cond]


def bounds_from(cond, subject):
    """Bounds on `subject` implied by a conjunction of comparisons with constants:
    returns dict with optional keys lo, lo_strict, hi, hi_strict."""
    b = {}
    flip = {"<": ">", "<=": ">=", ">": "<", ">=": "<="}
    for lit in comparisons(cond):
        if lit[0] != "cmp" or lit[1] not in flip:
            continue
        op, a, c = lit[1], lit[2], lit[3]
        if c == subject and const_value(a) is not None:
            op, a, c = flip[op], c, a
        if a != subject:
            continue
        v = const_value(c)
        if v is None:
            continue
        if op in ("<", "<="):
            if "hi" not in b or v < b["hi"] or (v == b["hi"] and op == "<"):
                b["hi"], b["hi_strict"] = v, op == "<"
        else:
            if "lo" not in b or v > b["lo"] or (v == b["lo"] and op == ">"):
                b["lo"], b["lo_strict"] = v, op == ">"
    return b


def guard_conditions(events):
    """Conditions that every normal continuation satisfies: `assert c` -> c ; `if c: raise` -> not c.
    Returned in program order with their line, top-level (unconditional) ones only plus ones nested
    under conditions (tagged with the enclosing guards)."""
    out = []
    for ev, ctx in walk(events, structural=True):
        if isinstance(ev, ir.Assert):
            out.append((ev.cond, ctx.guards, ev.line))
        elif isinstance(ev, ir.If):
            then_raises = ev.then and isinstance(ev.then[-1], ir.Raise) and len(ev.then) == 1
            else_raises = ev.orelse and isinstance(ev.orelse[-1], ir.Raise) and len(ev.orelse) == 1
            if then_raises:
                out.append((ir.negate(ev.cond), ctx.guards, ev.line))
            elif else_raises:
                out.append((ev.cond, ctx.guards, ev.line))
    return out


def normalise_not(cond):
    """Push a negation through and/or/comparisons."""
    if cond[0] == "not":
        c = cond[1]
        if c[0] == "cmp":
            inv = {"<": ">=", "<=": ">", ">": "<=", ">=": "<", "==": "!=", "!=": "==", "is": "is not",
                   "is not": "is", "in": "not in", "not in": "in"}
            return ("cmp", inv[c[1]], c[2], c[3])
        if c[0] == "or":
            return ("and", tuple(normalise_not(ir.negate(x)) for x in c[1]))
        if c[0] == "and":
            return ("or", tuple(normalise_not(ir.negate(x)) for x in c[1]))
        if c[0] == "not":
            return normalise_not(c[1])
    if cond[0] in ("and", "or"):
        return (cond[0], tuple(normalise_not(x) for x in cond[1]))
    return cond


# ------------------------------------------------------------------------------------------------
# roles
# ------------------------------------------------------------------------------------------------
BASES = {"STORAGE": "BaseStorage", "IMPUTER": "BaseImputer", "TRACKER": "Tracker", "WRAPPER": "Wrapper"}


def base_class(prog, role):
    c = prog.find_class(BASES[role])
    if c is None:
        raise AnalysisError(f"anchor base class {BASES[role]} vanished or is ambiguous")
    return c


def class_role(prog, cls):
    for role in ("STORAGE", "IMPUTER", "TRACKER", "WRAPPER"):
        if base_class(prog, role) in prog.mro(cls):
            return role
    return None


def _annotation_role(prog, text):
    if not text:
        return None
    for role, base in BASES.items():
        names = {c.name for c in prog.subclasses(base_class(prog, role))}
        for n in names:
            if n in _idents(text):
                return role
    return None


def _idents(text):
    out, cur = set(), ""
    for ch in text + " ":
        if ch.isalnum() or ch == "_":
            cur += ch
        else:
            if cur:
                out.add(cur)
            cur = ""
    return out


def value_role(prog, t, param_ann=None):
    """Role of a value term (follows gates, deepcopy, constructors, validators, annotated params)."""
    roles = set()
    for alt in strip_gates(t):
        if alt[0] == "res" and alt[2].endswith("validate_model_function"):
            roles.add("MODEL")
        elif alt[0] == "res" and alt[2].endswith("validate_loss_function"):
            roles.add("LOSS")
        elif alt[0] == "new" and alt[2] in ("deepcopy", "copy") and alt[3]:
            r = value_role(prog, alt[3][0], param_ann)
            if r:
                roles.add(r)
        elif alt[0] == "new" and "." in alt[2] and not alt[2].startswith("exc:"):
            try:
                c = prog.cls(alt[2])
            except ir.Unsupported:
                c = None
            if c is not None:
                r = class_role(prog, c)
                if r:
                    roles.add(r)
        elif alt[0] == "param" and param_ann:
            r = _annotation_role(prog, param_ann.get(alt[1]))
            if r:
                roles.add(r)
    if len(roles) == 1:
        return roles.pop()
    return None


def field_roles(prog, cls):
    """{field: role} for the fields a class's constructor chain assigns (DESIGN.md 3.2)."""
    s = prog.summarise(cls, "__init__")
    ann = {}
    for c in prog.mro(cls):
        init = c.methods.get("__init__")
        if init is None:
            continue
        for n in ast.walk(init):
            if isinstance(n, ast.AnnAssign) and isinstance(n.target, ast.Attribute) and \
                    isinstance(n.target.value, ast.Name) and n.target.value.id == "self":
                ann.setdefault(n.target.attr, ast.unparse(n.annotation))
    param_ann = {}
    c0, init0 = prog.find_method(cls, "__init__")
    for a in init0.args.args + init0.args.kwonlyargs:
        if a.annotation is not None:
            param_ann[a.arg] = ast.unparse(a.annotation)
    roles = {}
    for ev, ctx in walk(s.events):
        if isinstance(ev, ir.Store):
            r = value_role(prog, ev.value, param_ann) or _annotation_role(prog, ann.get(ev.field))
            if r and roles.get(ev.field, r) == r:
                roles[ev.field] = r
    # components of the state that are not written by a store of their own (entries of a dict of named slots)
    for f, v in s.fields.items():
        if f not in roles and "." in f:
            r = value_role(prog, v, param_ann)
            if r:
                roles[f] = r
    for f in [f for f in roles if any(g.startswith(f + ".") for g in s.fields)]:
        del roles[f]                    # the owner of components is not itself a value with a role
    return roles


def defines(prog, cls, name):
    """Is `cls` the public class through which method `name` is analysed?  True when cls defines it itself, or
    inherits it from a private base / mixin without a public class in between offering the same definition
    (a subclass that merely inherits a public class's method is not analysed again)."""
    owner, fn = prog.find_method(cls, name)
    if fn is None:
        return False
    if owner is cls:
        return True
    if not owner.name.startswith("_"):
        return False
    return not any(c is not cls and not c.name.startswith("_") and prog.find_method(c, name)[0] is owner
                   for c in prog.mro(cls)[1:])


def shared_descriptor(prog, cls, name):
    """(descriptor class, its __set__, attribute) when the class-level attribute `name` is an instance of a package class
    whose __set__ writes the value into an attribute of the descriptor object itself; else None."""
    for k in prog.mro(cls):
        node = k.class_attrs.get(name)
        if node is None:
            continue
        if not isinstance(node, ast.Call):
            return None
        K = prog.resolve_class(k.module, node.func)
        if K is None:
            return None
        _, setter = prog.find_method(K, "__set__")
        if setter is None or len(setter.args.args) < 3:
            return None
        me, inst = setter.args.args[0].arg, setter.args.args[1].arg
        for n in ast.walk(setter):
            if isinstance(n, ast.Attribute) and isinstance(n.ctx, ast.Store) and isinstance(n.value, ast.Name) and n.value.id == me:
                return K, setter, n.attr
        return None
    return None


def ctor_wiring(run, prog, cls, rule):
    """Constructor arguments reach the attributes named after them: when a class keeps a public attribute
    with the name of one of its constructor parameters, the value left there by __init__ (with the base
    constructors inlined) must be built from that very argument.  A subclass that accepts the argument but does
    not forward it -- so that a base-class default lands in the attribute -- is refuted."""
    owner, fn = prog.find_method(cls, "__init__")
    if fn is None:
        return 0
    try:
        s = prog.summarise(cls, "__init__")
    except ir.Unsupported:
        return 0
    a = fn.args
    params = [x.arg for x in a.posonlyargs + a.args][1:] + [x.arg for x in a.kwonlyargs]
    n = 0
    for pname in params:
        shared = shared_descriptor(prog, cls, pname)
        if shared is not None:
            K, setter, attr = shared
            run.fail(rule, f"{cls.name}.ctor.{pname}", f"{K.module.path}:{setter.lineno}", f"{K.name}.__set__",
                     f"{cls.name}.{pname} = {K.name}() keeps the value in self.{attr}",
                     f"`{pname}` of {cls.name} is a descriptor object of class {K.name} whose __set__ stores the value on the "
                     f"descriptor itself (self.{attr}): there is one descriptor per class, so every instance of {cls.name} and "
                     f"of its subclasses shares one `{pname}` -- constructing another object changes the `{pname}` of this one")
            n += 1
            continue
        if pname.startswith("_") or pname not in s.fields:
            continue
        n += 1
        v = s.fields[pname]
        ok = ("param", pname) in ir.subterms(v)
        run.check(ok, rule, f"{cls.name}.ctor.{pname}", f"{s.path}:{fn.lineno}", f"{cls.name}.__init__",
                  f"self.{pname} = {ir.show_nl(v)[:100]}",
                  f"the constructor argument `{pname}` does not reach the attribute of the same name: after "
                  f"{cls.name}.__init__ self.{pname} is {ir.show_nl(v)[:140]} whatever the caller passes (an argument "
                  f"that is accepted but not forwarded to the base constructor leaves the base default in place)",
                  f"self.{pname} is built from the argument {pname}")
    return n


def explainer_classes(prog):
    """Concrete classes offering explain_one (discovered, not listed)."""
    out = []
    for c in prog.all_classes():
        if not c.module.name.startswith("ixai.explainer"):
            continue
        owner, m = prog.find_method(c, "explain_one")
        if m is None or c.name.startswith("_"):
            continue            # private intermediate bases / mixins are analysed through their public subclasses
        body = [n for n in m.body if not (isinstance(n, ast.Expr) and isinstance(n.value, ast.Constant))]
        if len(body) == 1 and isinstance(body[0], ast.Raise):
            continue
        out.append(c)
    return out


def estimate_fields(prog, cls, roles=None):
    roles = roles or field_roles(prog, cls)
    est = {f for f, r in roles.items() if r == "TRACKER"}
    s = prog.summarise(cls, "__init__")
    stored = {ev.field for ev, _ in walk(s.events) if isinstance(ev, ir.Store)}
    for name in ("marginal_prediction", "importance_values"):
        if name in stored:
            est.add(name)
    return est


def callback_fields(roles):
    return {f for f, r in roles.items() if r in ("MODEL", "LOSS", "IMPUTER", "STORAGE")}


def mutating_methods(prog, base_role):
    """Names of methods that store to self somewhere in the hierarchy of a role's base class."""
    out = set()
    for c in prog.subclasses(base_class(prog, base_role)):
        for name, fn in c.methods.items():
            if name.startswith("__") and name != "__call__":
                continue
            for n in ast.walk(fn):
                if isinstance(n, (ast.Attribute, ast.Subscript)) and isinstance(n.ctx, (ast.Store, ast.Del)):
                    out.add(name)
                    break
                if isinstance(n, ast.Call) and isinstance(n.func, ast.Attribute) and n.func.attr in ir.MUTATORS \
                        and n.func.attr != "get":
                    out.add(name)
                    break
    return out


def func_qual(summary):
    return summary.qual


def line_key(run, summary_or_path, line):
    path = summary_or_path if isinstance(summary_or_path, str) else summary_or_path.path
    return run.stmt_text(path, line)


def zero_test(g, totals):
    """Branch literal equivalent to `T == 0` for a T in totals (any spelling: ==, not !=, `not T`)."""
    n = normalise_not(g)
    if n[0] == "cmp" and n[1] == "==":
        if (n[2] in totals and const_value(n[3]) == 0) or (n[3] in totals and const_value(n[2]) == 0):
            return True
        # `a - b == 0` is kept as `a == b`
        return any(t[0] == "op" and t[1] == "-" and {t[2], t[3]} == {n[2], n[3]} for t in totals)
    if n[0] == "not" and n[1] in totals:
        return True
    return False


def nonzero_test(g, totals):
    n = normalise_not(g)
    if n[0] == "cmp" and n[1] == "!=":
        if (n[2] in totals and const_value(n[3]) == 0) or (n[3] in totals and const_value(n[2]) == 0):
            return True
        return any(t[0] == "op" and t[1] == "-" and {t[2], t[3]} == {n[2], n[3]} for t in totals)
    return n in totals


def value_leaves(t):
    """Every value a term can take: arms of selections, returns of try statements, arms of try-assigned variables."""
    if not isinstance(t, tuple) or not t:
        return [t]
    if t[0] == "gate":
        return value_leaves(t[2]) + value_leaves(t[3])
    if t[0] == "tryret":
        return [x for r in t[2] for x in value_leaves(r)]
    if t[0] == "tryphi" and len(t) >= 4:
        return [x for r in t[3] for x in value_leaves(r)]
    return [t]


def nonempty_test(g, it):
    """Is the guard just the test that the iterable of the loop it encloses is non-empty (`if xs:` /
    `if len(xs) > 0:` around `for x in xs`)?  Such a guard never skips an iteration."""
    s = ir.strip_sites
    if s(g) == s(it):
        return True
    if g[0] == "cmp" and g[2][0] == "fn" and g[2][1] == "len" and g[2][2] and s(g[2][2][0]) == s(it):
        c = const_value(g[3])
        return (g[1] == ">" and c == 0) or (g[1] == ">=" and c == 1) or (g[1] == "!=" and c == 0)
    return False


def gate_on(t, cond):
    """If t is a gate on (any spelling of) `cond`, return (value when cond holds, value otherwise)."""
    from .boolalg import literal
    if not (isinstance(t, tuple) and t and t[0] == "gate"):
        return None
    a, pol = literal(t[1])
    ca, cpol = literal(cond)
    if a != ca:
        return None
    return (t[2], t[3]) if pol == cpol else (t[3], t[2])


def return_cases(summary):
    """[(guards, value, line, ctx)] for every way the function returns: each own `return` combined with each
    resolution of the gates inside the returned value (single-exit code with a gated variable and
    early-return code give the same cases)."""
    from .algebra import arms
    out = []
    def alternatives(v):
        """The value of a call inlined around a try statement is one of the values its body / handlers return."""
        if v[0] == "tryret":
            return [a for r in v[2] if r != ("raise",) for a in alternatives(r)]
        return [v]
    for ev, ctx in walk(summary.events):
        if isinstance(ev, ir.Return) and not ctx.inl:
          for value in alternatives(ev.value):
            # gates may also sit inside the guards (`if factor == 0` with factor = mode ? a : b): split jointly
            for facts, tup in arms(("tuple", (value,) + tuple(ctx.guards))):
                v, guards = tup[1][0], tup[1][1:]
                allg = tuple(guards) + tuple(facts)
                if any(ir.negate(g) in allg for g in allg):
                    continue
                try:
                    from .boolalg import satisfiable
                    if not satisfiable(("and", allg)):
                        continue            # e.g. (a or b) & not a & not b
                except ValueError:
                    pass
                out.append((allg, v, ev.line, ctx))
    return out
