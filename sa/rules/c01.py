"""C01 -- incremental SAGE values always sum to the explained loss (efficiency).

Decided clauses (together sufficient over the reals, given the trusted base):
 TELESCOPE  in the chain loop the credit stored under the loop target is c_in - new, c_out = new, and exactly
            that dict reaches the importance trackers, so the credits of one observation sum to c0 - c_end;
 SAME       c0 is the very term fed to the marginal-loss tracker;
 CHAIN      the imputed set starts as all feature names and loses the revealed feature before the imputation;
            the chain is a permutation of the same names: the last step imputes nothing (model loss, by C06);
            x, y and n are those of the model-loss call;
 COUNT      model-loss, marginal-loss, importance (and variance) trackers are updated in lock-step: once each
            when explaining, never otherwise;
 OPERATOR   all trackers are deep copies of one base tracker (one linear operator; linearity by C10, per-key
            copies and zero-fill by C12);
 FORMULA    explained_loss == marginal_loss - model_loss with the loss-direction offset cancelling.
"""
from .explcore import check_guard_and_counter, tracker_operator
from .sagecore import Sage, telescope, chain_start, chain_end, lockstep, getters

META = {
    "explanation": "TELESCOPE/SAME/CHAIN/COUNT/OPERATOR/FORMULA obligations on the gated value graph and effect tree of "
                   "IncrementalSage.__init__/explain_one and the three loss getters: loop-carried loss, credit term "
                   "compared in exact normal form with c_in - new, term identity between chain start and marginal-loss "
                   "update, typestate of the shrinking coalition set, lock-step update counts over all paths.",
    "trusted_base": ["trackers are linear running statistics (C10) with per-key copies and zero-fill (C12)",
                     "imputers honour C06 (empty subset = unperturbed prediction)", "deterministic model and loss"],
    "assumptions": ["real arithmetic; the statement allows rounding error"],
}
META["explanation"] += ' Round 5: every chain link books its credit (no condition of its own); the default imputer is built on the validated model function (DEP-C15 BUDGET). HAZARD: constructs that do not mean what they look like, met in the analysed code (defaults evaluated once, class-level containers changed through self, dict.fromkeys with a shared mutable value, late-binding lambdas, truth value of objects that define __len__) are reported by every check.'
MIN_INSTANCES = {"TELESCOPE": 2, "SAME": 1, "CHAIN": 4, "COUNT": 3, "OPERATOR": 2, "FORMULA": 4}


def check(run):
    sg = Sage(run, run.prog)
    E = check_guard_and_counter(sg, "COUNT", "sage")
    res = telescope(sg, "TELESCOPE")
    if res is not None:
        D, init, nxt = res
        chain_start(sg, "SAME", init)
    chain_end(sg, "CHAIN")
    lockstep(sg, "COUNT", E)
    tracker_operator(run, run.prog, sg.cls, "OPERATOR", "sage.operator")
    from .explcore import defaults_resolution
    defaults_resolution(run, run.prog, sg.cls, "OPERATOR", "defaults")
    getters(sg, "FORMULA")

    # the clauses C01 relies on are obligations of this check too: linear trackers, per-key copies, imputers
    from .c06 import depends_on
    depends_on(run, "C10")
    depends_on(run, "C12", {"TYPESTATE", "NOMUT", "COPY"})
    depends_on(run, "C06", {"MERGE", "KEYS", "COUNT", "VALUE", "COPY"})
    depends_on(run, "C17", {"ORDER", "PROPAGATE"})
    depends_on(run, "C03", {"NEW", "C0"})
    depends_on(run, "C15", {"CTOR", "DEFAULTS", "BUDGET"},
               only=lambda rule, inst: inst.startswith("IncrementalSage") and (rule != "BUDGET" or inst.endswith("default-imputer")))


_I = "ixai/explainer/sage/incremental.py"
_B = "ixai/explainer/base.py"
_CHAIN = ("                marginal_contribution = sample_loss - feature_loss\n"
          "                sample_loss = feature_loss\n"
          "                marginal_contributions[feature] = marginal_contribution\n")
WITNESSES = [
    ("carry dropped", [(_I, "                sample_loss = feature_loss\n", "")]),
    ("model loss fed to the marginal tracker", [(_I, "self._marginal_loss_tracker.update(marginal_loss)", "self._marginal_loss_tracker.update(model_loss)")]),
    ("second update of one tracker", [(_I, "            self._model_loss_tracker.update(model_loss)\n", "            self._model_loss_tracker.update(model_loss)\n            self._model_loss_tracker.update(model_loss)\n")]),
    ("different alpha for one tracker", [(_B, "self._model_loss_tracker: Tracker = copy.deepcopy(base_tracker)", "self._model_loss_tracker: Tracker = ExponentialSmoothingTracker(alpha=0.5)")]),
    ("offset in one getter only", [(_I, "return self._model_loss_tracker.get() + self._loss_direction", "return self._model_loss_tracker.get()")]),
    ("remove after impute", [(_I, "                features_not_in_s.remove(feature)\n                predictions = self._imputer.impute(\n                    feature_subset=features_not_in_s,\n                    x_i=x_i,\n                    n_samples=n_inner_samples\n                )\n",
                              "                predictions = self._imputer.impute(\n                    feature_subset=features_not_in_s,\n                    x_i=x_i,\n                    n_samples=n_inner_samples\n                )\n                features_not_in_s.remove(feature)\n")]),
    ("chain over feature_names[:-1]", [(_I, "np.random.permutation(len(self.feature_names))]", "np.random.permutation(len(self.feature_names))][:-1]")]),
    ("credit new - c_in", [(_I, "marginal_contribution = sample_loss - feature_loss", "marginal_contribution = feature_loss - sample_loss")]),
    ("chain starts at another loss value", [(_I, "            sample_loss = marginal_loss\n", "            sample_loss = self._loss_function(y_i, self.marginal_prediction)\n")]),
    ("importance tracker not updated when a flag is off", [(_I, "            self._importance_trackers.update(marginal_contributions)\n", "            if update_storage:\n                self._importance_trackers.update(marginal_contributions)\n")]),
    ("one tracker object for both loss estimates", [(_B, "self._model_loss_tracker: Tracker = copy.deepcopy(base_tracker)", "self._model_loss_tracker: Tracker = self._marginal_loss_tracker")]),
    ("explained loss from raw trackers minus offset", [(_I, "return self.marginal_loss - self.model_loss", "return self.marginal_loss - self._model_loss_tracker.get()")]),
    ("coalition starts from the instance keys", [(_I, "features_not_in_s = set(self.feature_names)", "features_not_in_s = set(x_i)")]),
    ("model loss of another instance", [(_I, "model_loss = self._loss_function(y_i, y_i_pred)", "model_loss = self._loss_function(y_i, self.marginal_prediction)")]),
]
SILENT = [
    ("the pristine base tracker itself serves as one estimate", [(_B, "self._marginal_loss_tracker: Tracker = copy.deepcopy(base_tracker)", "self._marginal_loss_tracker: Tracker = base_tracker")]),
    ("tuple assignment", [(_I, _CHAIN, "                sample_loss, marginal_contribution = feature_loss, sample_loss - feature_loss\n                marginal_contributions[feature] = marginal_contribution\n")]),
    ("rename locals", [(_I, "sample_loss", "loss_before", "all"), (_I, "feature_loss", "loss_after", "all")]),
    ("credit written directly", [(_I, _CHAIN, "                marginal_contributions[feature] = sample_loss - feature_loss\n                sample_loss = feature_loss\n")]),
    ("discard instead of remove", [(_I, "features_not_in_s.remove(feature)", "features_not_in_s.discard(feature)")]),
]
