"""NPAPI: every numpy attribute the package references exists in the installed NumPy and is not
in the NumPy-2 removal table (ruff NPY201's list).  Only NumPy's own namespace is consulted; nothing
of /repo is imported."""
import ast

REMOVED_IN_2 = {
    "NaN", "NAN", "Inf", "Infinity", "infty", "PINF", "NINF", "PZERO", "NZERO", "float_", "complex_", "cfloat",
    "longfloat", "singlecomplex", "longcomplex", "clongfloat", "string_", "unicode_", "object0", "int0", "uint0",
    "void0", "str0", "bytes0", "bool8", "float96", "float128_", "a2s", "alltrue", "asfarray", "sometrue", "product",
    "cumproduct", "round_", "row_stack", "trapz", "in1d", "find_common_type", "cast", "source", "who", "msort",
    "issubclass_", "issubsctype", "issctype", "obj2sctype", "sctype2char", "sctypes", "maximum_sctype", "mat",
    "set_string_function", "deprecate", "deprecate_with_doc", "disp", "byte_bounds", "compare_chararrays",
    "recfromcsv", "recfromtxt", "safe_eval", "lookfor", "nbytes", "add_docstring", "add_newdoc", "add_newdoc_ufunc",
    "asscalar", "geterrobj", "seterrobj", "tracemalloc_domain", "compat", "DataSource", "Bytes0", "Str0", "Uint0",
    "Int0", "Object0", "Bool8", "unicode", "numarray", "oldnumeric",
}


def numpy_refs(prog, module_names=None):
    """[(module path, line, dotted)] for every attribute chain resolving into numpy."""
    out = []
    for m in prog.modules.values():
        if module_names is not None and m.name not in module_names:
            continue
        seen = set()
        for n in ast.walk(m.tree):
            if isinstance(n, ast.Attribute):
                d = prog.dotted_of(m, n)
                if d and (d == "numpy" or d.startswith("numpy.")):
                    # keep maximal chains only
                    key = (n.lineno, n.col_offset)
                    if key in seen:
                        continue
                    seen.add(key)
                    out.append((m.path, n.lineno, d))
    # drop prefixes of longer chains at the same position
    return sorted(set(out))


def call_hazards(prog, module_names=None):
    """[(module path, line, what, why)]: calls whose meaning changed in the installed NumPy major version in a way
    that breaks ordinary inputs (table; one line of reason each)."""
    import numpy
    major = int(numpy.__version__.split(".")[0])
    out = []
    for m in prog.modules.values():
        if module_names is not None and m.name not in module_names:
            continue
        for n in ast.walk(m.tree):
            if not isinstance(n, ast.Call):
                continue
            d = prog.dotted_of(m, n.func) if isinstance(n.func, (ast.Attribute, ast.Name)) else None
            if d is None and isinstance(n.func, ast.Name):
                r = prog.resolve_name(m, n.func.id)
                d = r[1] if r and r[0] == "ext" else None
            if d == "numpy.array" and major >= 2 and any(
                    k.arg == "copy" and isinstance(k.value, ast.Constant) and k.value.value is False for k in n.keywords):
                out.append((m.path, n.lineno, "numpy.array(..., copy=False)",
                            f"on NumPy {numpy.__version__} `copy=False` means *never copy* and raises ValueError whenever "
                            f"a copy is needed -- for every Python scalar, list or array of another dtype "
                            f"(np.asarray is the copy-if-needed spelling)"))
            # operations that rearrange / overwrite an array argument in place although they read like queries
            if d is not None and d.startswith("numpy.") and any(
                    k.arg == "overwrite_input" and not (isinstance(k.value, ast.Constant) and not k.value.value)
                    for k in n.keywords):
                out.append((m.path, n.lineno, f"{d}(..., overwrite_input=True)",
                            f"`overwrite_input=True` lets {d} partition / compact its argument in place: an array that is kept "
                            f"(a ring buffer indexed by arrival position) is permuted by what looks like a read"))
            if d is not None and d.startswith("numpy.") and any(
                    k.arg == "out" and isinstance(k.value, ast.Attribute) and isinstance(k.value.value, ast.Name) and
                    k.value.value.id == "self" for k in n.keywords):
                out.append((m.path, n.lineno, f"{d}(..., out=self.{next(k.value.attr for k in n.keywords if k.arg == 'out')})",
                            f"`out=` makes {d} write its result over an array the object keeps"))
            if isinstance(n.func, ast.Attribute) and n.func.attr in ("sort", "partition", "fill", "put", "resize", "itemset") and \
                    isinstance(n.func.value, ast.Attribute) and isinstance(n.func.value.value, ast.Name) and \
                    n.func.value.value.id == "self":
                out.append((m.path, n.lineno, f"self.{n.func.value.attr}.{n.func.attr}(...)",
                            f"ndarray.{n.func.attr} changes the kept array in place (slots no longer correspond to arrival "
                            f"positions)"))
    return out


def resolves(dotted):
    """(exists in installed numpy, removed-in-2 name or None)."""
    import numpy
    parts = dotted.split(".")[1:]
    obj = numpy
    removed = next((p for p in parts[:1] if p in REMOVED_IN_2), None)
    for p in parts:
        if not hasattr(obj, p):
            return False, removed
        obj = getattr(obj, p)
    return True, removed


def numpy_version():
    import numpy
    return numpy.__version__
