"""C20 -- float results stay close to exact arithmetic (narrow structural claim; the error constants themselves
are not decidable in this family).

Decided, necessary conditions of the stated bounds:
 CENTRED  in WelfordTracker.update the new value enters the second-moment accumulator only as the minuend of a
          difference with the running mean (no raw x*x accumulation), and the variance getter contains no
          subtraction of accumulated quantities (the textbook E[x^2]-E[x]^2 form loses a factor kappa);
 PLAIN    the tracker updates and getters are branch-free functions of state and input: no thresholding /
          flush-to-zero / rounding of tracked values (an absolute cut-off breaks the relative bounds for small
          magnitudes);
 NOCAST   no narrowing float type (float32/float16/half/single) anywhere in tracker or explainer arithmetic;
 DENOM    every division in tracker code has a denominator that is the update count after its increment,
          max(count, 1) or a non-zero constant;
 CHAIN    the SAGE chain losses are used as returned by the loss (no constant offset added before differencing,
          which would round small losses to the float grid at 1.0).
"""
import ast

from .. import ir
from ..paths import walk
from ..report import AnalysisError
from .common import const_value

META = {
    "explanation": "CENTRED/PLAIN/NOCAST/DENOM: syntactic dataflow on the un-normalised update terms of the trackers "
                   "(how the new value reaches the second-moment accumulator, absence of gates/rounding in state "
                   "transformers and getters, denominators), a package scan for narrowing float types, and provenance of "
                   "the chain losses in IncrementalSage. These are necessary conditions of the stated error bounds.",
    "trusted_base": ["IEEE-754 double arithmetic; Welford's update is backward stable (Chan, Golub, LeVeque 1983)"],
    "assumptions": [],
    "not_decided": "the error constants themselves (n*eps*max|v|, eps*max|v|/alpha, n*eps*kappa), overflow, and the "
                   "explainer-level bound: no sound static argument for them is in reach with the installed tooling",
}
META["explanation"] += ' Also DEP-C03 KEY (credits tracked as differenced) and the process-wide NumPy error mode.'
META["explanation"] += ' Round 5: DEP-C02 SAME operator (which base tracker is selected; the estimate trackers are independent copies). HAZARD: constructs that do not mean what they look like, met in the analysed code (defaults evaluated once, class-level containers changed through self, dict.fromkeys with a shared mutable value, late-binding lambdas, truth value of objects that define __len__) are reported by every check.'
META["explanation"] += ' Round 6: DEP-C12 ZERODIV and DEP-C13 dispatch.'
MIN_INSTANCES = {"CENTRED": 2, "PLAIN": 4, "NOCAST": 1, "DENOM": 2, "CHAIN": 1}
NARROW = {"numpy.float32", "numpy.float16", "numpy.half", "numpy.single", "numpy.csingle", "numpy.complex64",
          "torch.float16", "torch.bfloat16"}
TRACKER_MODS = ("ixai.utils.tracker.",)
ARITH_MODS = ("ixai.utils.tracker.", "ixai.explainer.", "ixai.imputer.", "ixai.storage.")


def _occurrence_parents(t, target, parent=None, out=None):
    out = [] if out is None else out
    if t == target:
        out.append(parent)
        return out
    if isinstance(t, tuple):
        for x in t:
            if isinstance(x, tuple):
                _occurrence_parents(x, target, t if (t and isinstance(t[0], str)) else parent, out)
    return out


_COUNTERS = set()


def _threshold(cond):
    """A magnitude test: abs(...) or an ordering comparison against a non-zero numeric constant
    (equality / zero tests are exact case splits and are decided algebraically by C10)."""
    counters = {("field0", "N")} | set(_COUNTERS)
    for t in ir.subterms(cond):
        if t[0] == "fn" and t[1] == "abs":
            return True
        if t[0] == "cmp" and t[1] in ("<", "<=", ">", ">="):
            if any(side in counters or (side[0] == "op" and side[2] in counters) for side in (t[2], t[3])):
                continue        # a test on the integer update count is an exact case split, not a magnitude test
            for side in (t[2], t[3]):
                c = const_value(side)
                if c is not None and c != 0:
                    return True
    return False


def check(run):
    from .common import numeric_mode
    numeric_mode(run, run.prog, "PLAIN")
    prog = run.prog
    W = prog.find_class("WelfordTracker")
    E = prog.find_class("ExponentialSmoothingTracker")
    run.need(W is not None and E is not None, "anchor classes WelfordTracker / ExponentialSmoothingTracker vanished")
    # ---- CENTRED ----------------------------------------------------------------------------------
    s = prog.summarise(W, "update")
    fq = "WelfordTracker.update"
    run.analysed_fn(fq)
    _, fn = prog.find_method(W, "update")
    v = ("param", [a.arg for a in fn.args.args][1])
    from .common import welford_roles
    wr = welford_roles(prog, W)
    _COUNTERS.clear()
    _COUNTERS.add(("field0", wr["N"]))
    mean0 = ("field0", wr["tracked_value"])
    acc_fields = [f for f, t in s.fields.items() if f not in (wr["N"], wr["tracked_value"]) and v in ir.subterms(t)]
    run.need(acc_fields, "WelfordTracker.update has no second-moment accumulator depending on the value")
    for f in acc_fields:
        t = s.fields[f]
        parents = _occurrence_parents(t, v)
        centred = all(p is not None and p[0] == "op" and p[1] == "-" and p[2] == v and mean0 in ir.subterms(p[3])
                      for p in parents)
        raw = [p for p in parents if p is not None and p[0] == "op" and p[1] in ("*", "**")]
        run.check(centred, "CENTRED", f"accumulator.{f}", f"{s.path}:{s.fn.lineno}", fq, f"self.{f}' = {ir.show_nl(t)[:160]}",
                  f"the new value must enter self.{f} only as (value - running mean): " +
                  ("a raw square/product of the value is accumulated, so the variance becomes a difference of two large "
                   "numbers (catastrophic cancellation for data with a large mean)" if raw else
                   f"found {ir.show_nl(t)[:200]}"), f"self.{f}' uses the value only through (value - mean)")
    var = prog.summarise(W, "var")
    run.analysed_fn("WelfordTracker.var")
    subs = [t for t in ir.subterms(var.ret) if t[0] == "op" and t[1] == "-" and
            any(x[0] == "field0" for x in ir.subterms(t[2])) and any(x[0] == "field0" for x in ir.subterms(t[3]))]
    run.check(not subs, "CENTRED", "var-getter", f"{var.path}:{var.fn.lineno}", "WelfordTracker.var",
              f"var = {ir.show_nl(var.ret)[:140]}",
              "the variance must be read from the centred accumulator; it is computed as a difference of accumulated "
              f"quantities ({ir.show_nl(subs[0])[:120] if subs else ''}): relative error grows with mean^2/var",
              f"var = {ir.show_nl(var.ret)[:100]}")
    # ---- PLAIN: no gates / rounding in transformers and getters -------------------------------------
    for cls, methods in ((W, ("update", "mean", "var", "std", "get", "__call__")), (E, ("update", "get", "__call__"))):
        for m in methods:
            if prog.find_method(cls, m)[1] is None:
                continue
            sm = prog.summarise(cls, m)
            run.analysed_fn(f"{cls.name}.{m}")
            terms = [sm.ret] + [t for f, t in sm.fields.items() if f not in ("N", wr["N"])]
            bad = None
            for t in terms:
                for x in ir.subterms(t):
                    if x[0] == "gate" and _threshold(x[1]):
                        bad = f"value depends on the magnitude test {ir.show_nl(x[1])[:100]}"
                    if x[0] == "fn" and x[1] in ("round", "floor", "ceil", "trunc", "int", "float32", "float16"):
                        bad = f"{x[1]}() applied to a tracked value"
                    if x[0] == "fn" and x[1] in ("max", "min") and m in ("update",):
                        bad = f"{x[1]}() clamps a tracked value"
            run.check(bad is None, "PLAIN", f"{cls.name}.{m}", f"{sm.path}:{sm.fn.lineno}", f"{cls.name}.{m}",
                      f"{cls.name}.{m}: {bad or 'plain'}",
                      f"tracker state transformers and getters must be plain arithmetic of state and input: {bad} "
                      f"(thresholding / rounding breaks the relative error bounds for small magnitudes)",
                      "branch-free, no rounding")
    # ---- DENOM ----------------------------------------------------------------------------------------
    from .boolalg import holds
    from .algebra import arms
    n0 = ("field0", wr["N"])
    for cls, m in ((W, "update"), (W, "var")):
        sm = prog.summarise(cls, m)
        okd, seen = True, 0
        for t in [sm.ret] + list(sm.fields.values()):
            for facts, tt in arms(t):
                for x in ir.subterms(tt):
                    if x[0] == "op" and x[1] == "/":
                        seen += 1
                        d = x[3]
                        good = d == ("op", "+", n0, ("const", 1)) or \
                            (d[0] == "fn" and d[1] == "max" and set(d[2]) == {n0, ("const", 1)}) or \
                            (const_value(d) not in (None, 0)) or \
                            (facts and (holds(facts, ("cmp", ">=", d, ("const", 1))) or holds(facts, ("cmp", ">", d, ("const", 0)))))
                        if not good:
                            okd = False
                            run.fail("DENOM", f"{cls.name}.{m}", f"{sm.path}:{sm.fn.lineno}", f"{cls.name}.{m}",
                                     f"denominator {ir.show_nl(d)}",
                                     f"division by {ir.show_nl(d)}, which is not provably >= 1 (count after increment / "
                                     f"max(count, 1) / guarded by a count test)")
        if okd:
            run.ok("DENOM", f"{cls.name}.{m}", f"{seen} division(s), denominators are the incremented count / max(count, 1)")
    # ---- NOCAST ---------------------------------------------------------------------------------------
    hits = []
    for mod in prog.modules.values():
        if not mod.name.startswith(ARITH_MODS):
            continue
        for n in ast.walk(mod.tree):
            if isinstance(n, ast.Attribute):
                d = prog.dotted_of(mod, n)
                if d in NARROW:
                    hits.append((mod, n.lineno, d))
            if isinstance(n, ast.Constant) and isinstance(n.value, str) and n.value in ("float32", "float16", "half", "f4", "f2", "single"):
                hits.append((mod, n.lineno, repr(n.value)))
    for mod, line, d in hits:
        run.fail("NOCAST", f"{mod.name}:{d}", f"{mod.path}:{line}", mod.name, f"narrow float type {d}",
                 f"{d} narrows the arithmetic to less than double precision")
    if not hits:
        run.ok("NOCAST", "package", "no float32/float16/half/single in tracker, explainer, imputer or storage modules")
    # ---- CHAIN: losses enter the chain as returned -----------------------------------------------------
    from .sagecore import Sage
    sg = Sage(run, prog)
    ok, why = True, ""
    if sg.carried is not None:
        name, init, nxt = sg.carried
        for label, t in (("loss before the first feature", init), ("loss after revealing", nxt)):
            if not (t[0] == "res" and t[2] == f"self.{sg.lf}"):
                ok, why = False, f"{label} is {ir.show_nl(t)[:120]}, not the loss value itself"
    else:
        from .sagecore import undecided_bookkeeping
        undecided_bookkeeping(sg)       # losses kept in a container filled during the walk: no verdict
        ok, why = False, "no carried chain loss"
    from .c06 import depends_on
    depends_on(run, "C10")
    depends_on(run, "C02", {"FORMULA", "SAME"}, only=lambda rule, inst: rule == "FORMULA" or "operator" in inst)         # PFI tracks the centred contribution mean(losses) - loss, not two raw losses
    depends_on(run, "C12", {"TYPESTATE", "COPY", "ZERODIV"})    # a zero normaliser is tested, not left to an exception NumPy scalars never raise
    depends_on(run, "C13", {"AGREE"}, only=lambda rule, inst: inst.startswith("dispatch"))      # a callable loss is handed on as it is (no re-typing of its values)
    depends_on(run, "C03", {"KEY"})             # the credits are tracked as differenced, not rescaled afterwards       # one tracker per key
    run.check(ok, "CHAIN", "raw-losses", sg.where(sg.L.line), sg.fq, f"chain losses: {why or 'as returned'}",
              f"the chain must difference the loss values as returned by the loss function: {why} (adding an offset before "
              f"differencing rounds small losses to the float grid of the offset)", "chain losses are the loss results themselves")


_W = "ixai/utils/tracker/welford.py"
_E = "ixai/utils/tracker/exponential_smoothing.py"
_I = "ixai/explainer/sage/incremental.py"
WITNESSES = [
    ("raw second moment", [(_W, "        self.sum_squares += difference_1 * difference_2\n", "        self.sum_squares += value_i * value_i\n"),
                           (_W, "return self.sum_squares / max(self.N, 1)", "return max(self.sum_squares / max(self.N, 1) - self.tracked_value ** 2, 0)")]),
    ("float32 accumulation", [(_W, "        difference_1 = value_i - self.tracked_value\n", "        import numpy as np\n        difference_1 = np.float32(value_i) - self.tracked_value\n")]),
    ("flush to zero", [(_E, "        self.N += 1\n        return self\n", "        if abs(self.tracked_value) <= 1e-10:\n            self.tracked_value = 0.0\n        self.N += 1\n        return self\n")]),
    ("rounded read-out", [("ixai/utils/tracker/base.py", "        return self.tracked_value\n", "        return round(self.tracked_value, 10)\n")]),
    ("offset added inside the chain", [(_I, "                feature_loss = self._loss_function(y_i, y)\n", "                feature_loss = self._loss_function(y_i, y) + self._loss_direction\n")]),
    ("division by the pre-increment count", [(_W, "        self.N += 1\n        difference_1 = value_i - self.tracked_value\n        self.tracked_value += difference_1 / self.N\n",
                                              "        difference_1 = value_i - self.tracked_value\n        self.tracked_value += difference_1 / self.N\n        self.N += 1\n")]),
]
SILENT = [
    ("temporaries renamed", [(_W, "difference_1", "delta", "all"), (_W, "difference_2", "delta_new", "all")]),
    ("difference written inline", [(_W, "        difference_2 = value_i - self.tracked_value\n        self.sum_squares += difference_1 * difference_2\n", "        self.sum_squares += difference_1 * (value_i - self.tracked_value)\n")]),
]
