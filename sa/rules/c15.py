"""C15 -- explainer call contract: defaults, loss signature, names, evaluation budget.

 NULL      no Optional (default None) parameter reaches an ordering comparison, arithmetic, subscript, len/range/
           iteration or attribute access without a dominating None test (whole package);
 ARITY     every intra-package constructor / function / super().__init__ / self-method call binds to the callee's
           signature, so default constructions no test executes are well-formed (whole package);
 LOSSCALL  every call through a loss field passes exactly (y_true, y_pred) positionally;
 NAMES     feature names reach dict keys / coalition sets / imputers as the original objects: no coercing NumPy
           primitive and no ordering (sorted/min/max) on names or subsets;
 BUDGET    explain_one of an incremental explainer: one seen sample per call; exactly one direct model evaluation
           plus one imputer call per feature (d calls, each n evaluations by the default MarginalImputer built on the
           explainer's own model), none on the first call;
 NOMUT     x_i, y_i and the feature-name list are never mutated;
 STORAGE   exactly one storage.update(x_i, y_i) per path iff update_storage, after every imputer call;
 RETURN    the returned dict is the importance_values property.
"""
import ast

from .. import ir
from ..paths import walk, paths, strip_gates
from ..report import AnalysisError
from .common import ctor_wiring, defines, explainer_classes, field_roles, new_items
from .drawlib import is_draw
from .explcore import Inc, impute_args, check_guard_and_counter, defaults_resolution
from .imputerlib import protected_mutations, imputer_classes, impute_params, model_field
from .sagelib import role_fields, one, is_call_to, FEATURE_NAMES

META = {
    "explanation": "Whole-package nullness dataflow (Optional parameters to dereferencing sinks, with branch facts), "
                   "signature binding of every resolved intra-package call site, call-convention agreement across all "
                   "loss call sites, provenance of feature-name objects (no coercing/ordering operation), call-count "
                   "structure of explain_one, alias analysis for NOMUT, and storage-update typestate over all paths.",
    "trusted_base": ["NumPy coerces sequence elements to one dtype; mixed str/int names are not orderable",
                     "the default MarginalImputer evaluates the model once per inner sample (C06 COUNT)"],
    "assumptions": ["d >= 1 features, n_inner >= 1"],
}
META["explanation"] += ' Also COPY for the explainers, NumPy functions on the feature names in constructors, function-only attributes read from the callables, DEP-C14.'
META["explanation"] += ' Round 5: DEP-C06 VALUE / COUNT / keys-as-keywords and DEP-C05 accumulate / acc-init / result. HAZARD: constructs that do not mean what they look like, met in the analysed code (defaults evaluated once, class-level containers changed through self, dict.fromkeys with a shared mutable value, late-binding lambdas, truth value of objects that define __len__) are reported by every check.'
META["explanation"] += ' Round 6: the constructors never ask for the truth value of the feature names (NAMES names-truth).'
MIN_INSTANCES = {"DEFAULTS": 6, "NULL": 20, "ARITY": 20, "LOSSCALL": 9, "NAMES": 4, "BUDGET": 4, "NOMUT": 4, "STORAGE": 2, "RETURN": 4, "COPY": 3}

ORDER_OPS = {"<", "<=", ">", ">="}
ARITH = {"+", "-", "*", "/", "**", "%", "//"}


# ------------------------------------------------------------------------------------------------
# NULL
# ------------------------------------------------------------------------------------------------
def optional_params(fn):
    a = fn.args
    names = [x.arg for x in a.posonlyargs + a.args]
    out = set()
    for n, d in zip(names[len(names) - len(a.defaults):], a.defaults):
        if isinstance(d, ast.Constant) and d.value is None:
            out.add(n)
    for kw, d in zip(a.kwonlyargs, a.kw_defaults):
        if d is not None and isinstance(d, ast.Constant) and d.value is None:
            out.add(kw.arg)
    return out


def _known_non_none(x, facts):
    from .boolalg import literal
    none = ("const", None)
    isnone = literal(("cmp", "is", x, none))
    eqnone = literal(("cmp", "==", x, none))
    for f in facts:
        if f == x:
            return True
        lit = literal(f)
        if lit in ((isnone[0], False), (eqnone[0], False)):
            return True
        if f[0] == "fn" and f[1] == "isinstance" and f[2] and f[2][0] == x:
            return True
        if f[0] == "and" and _known_non_none(x, list(f[1])):
            return True
    return False


def _scan_term(t, opt, facts, hits, line):
    if not isinstance(t, tuple) or not t or not isinstance(t[0], str):
        if isinstance(t, tuple):
            for x in t:
                _scan_term(x, opt, facts, hits, line)
        return
    k = t[0]

    def maybe(x):
        return isinstance(x, tuple) and x and x[0] == "param" and x[1] in opt and not _known_non_none(x, facts)
    if k == "gate":
        _scan_term(t[1], opt, facts, hits, line)
        _scan_term(t[2], opt, facts + [t[1]], hits, line)
        _scan_term(t[3], opt, facts + [ir.negate(t[1])], hits, line)
        return
    if k == "and":
        acc = list(facts)
        for x in t[1]:
            _scan_term(x, opt, acc, hits, line)
            acc = acc + [x]
        return
    if k == "or":
        acc = list(facts)
        for x in t[1]:
            _scan_term(x, opt, acc, hits, line)
            acc = acc + [ir.negate(x)]
        return
    if k == "op" and t[1] in ARITH:
        for x in (t[2], t[3]):
            if maybe(x):
                hits.append((line, f"arithmetic on Optional parameter '{x[1]}'", ir.show_nl(t)))
    if k == "cmp" and t[1] in ORDER_OPS:
        for x in (t[2], t[3]):
            if maybe(x):
                hits.append((line, f"ordering comparison on Optional parameter '{x[1]}'", ir.show_nl(t)))
    if k in ("sub", "attr") and maybe(t[1]):
        hits.append((line, f"dereference of Optional parameter '{t[1][1]}'", ir.show_nl(t)))
    if k == "fn" and t[1] in ("len", "float", "int", "abs", "range", "sum", "max", "min", "sorted") and t[2] and maybe(t[2][0]):
        hits.append((line, f"{t[1]}() of Optional parameter '{t[2][0][1]}'", ir.show_nl(t)))
    if k == "res" and t[2].startswith(".") and t[3] and maybe(t[3][0]):
        hits.append((line, f"method call on Optional parameter '{t[3][0][1]}'", ir.show_nl(t)[:120]))
    for x in t[1:]:
        if isinstance(x, tuple):
            _scan_term(x, opt, facts, hits, line)


def _scan_events(events, opt, facts, hits):
    for ev in events:
        if isinstance(ev, ir.If):
            _scan_term(ev.cond, opt, facts, hits, ev.line)
            _scan_events(ev.then, opt, facts + [ev.cond], hits)
            _scan_events(ev.orelse, opt, facts + [ir.negate(ev.cond)], hits)
        elif isinstance(ev, ir.Loop):
            _scan_term(ev.iter, opt, facts, hits, ev.line)
            if ev.iter[0] == "param" and ev.iter[1] in opt and not _known_non_none(ev.iter, facts):
                hits.append((ev.line, f"iteration over Optional parameter '{ev.iter[1]}'", ""))
            _scan_events(ev.body, opt, facts, hits)
        elif isinstance(ev, ir.Inlined):
            pass    # the callee is scanned on its own with its own Optional parameters
        elif isinstance(ev, ir.With):
            _scan_events(ev.body, opt, facts, hits)
        elif isinstance(ev, ir.Try):
            _scan_events(ev.body, opt, facts, hits)
            for h in ev.handlers:
                _scan_events(h.body, opt, facts, hits)
        elif isinstance(ev, ir.Assert):
            _scan_term(ev.cond, opt, facts, hits, ev.line)
            facts = facts + [ev.cond]
        elif isinstance(ev, (ir.Call, ir.Mut)):
            if ev.recv is not None and isinstance(ev.recv, tuple) and ev.recv and ev.recv[0] == "param" and \
                    ev.recv[1] in opt and not _known_non_none(ev.recv, facts) and \
                    (getattr(ev, "method", None) or ev.callee.startswith("local:")):
                hits.append((ev.line, f"call through Optional parameter '{ev.recv[1]}'", ""))
            for x in ev.args:
                _scan_term(x, opt, facts, hits, ev.line)
            for _, x in ev.kwargs:
                _scan_term(x, opt, facts, hits, ev.line)
        else:
            for x in ev:
                if isinstance(x, tuple):
                    _scan_term(x, opt, facts, hits, getattr(ev, "line", 0))


def _null(run, prog):
    nfun = 0
    for m, c, name, fn in prog.all_functions():
        opt = optional_params(fn)
        if not opt:
            continue
        try:
            s = ir.Summariser(prog, m, c, fn, owner=c).run()
        except ir.Unsupported:
            continue
        nfun += 1
        hits = []
        _scan_events(s.events, opt, [], hits)
        fq = f"{c.name + '.' if c else ''}{name}"
        run.analysed_fn(fq)
        seen = set()
        for line, what, term in hits:
            if (line, what) in seen:
                continue
            seen.add((line, what))
            run.fail("NULL", fq, f"{m.path}:{line}", fq, f"{what}: {run.stmt_text(m.path, line)[:120]}",
                     f"{what} without a dominating None test ({term[:120]}): the documented default raises TypeError")
        if not hits:
            run.ok("NULL", fq, f"Optional parameters {sorted(opt)} never reach a dereferencing sink unguarded")
    run.need(nfun >= 20 or run.findings, f"only {nfun} functions with Optional parameters analysed (expected >= 20)")


# ------------------------------------------------------------------------------------------------
# ARITY
# ------------------------------------------------------------------------------------------------
def _bind(call, fn, skip_self):
    """None if the call binds to fn's signature, else a reason."""
    a = fn.args
    params = [x.arg for x in a.posonlyargs + a.args]
    if skip_self and params:
        params = params[1:]
    n_pos = len([x for x in call.args if not isinstance(x, ast.Starred)])
    if any(isinstance(x, ast.Starred) for x in call.args) or any(k.arg is None for k in call.keywords):
        return None
    if n_pos > len(params) and not a.vararg:
        return f"{n_pos} positional arguments for {len(params)} parameters"
    bound = set(params[:n_pos])
    kwonly = {x.arg for x in a.kwonlyargs}
    for k in call.keywords:
        if k.arg in bound:
            return f"multiple values for '{k.arg}'"
        if k.arg not in params and k.arg not in kwonly and not a.kwarg:
            return f"unexpected keyword '{k.arg}'"
        bound.add(k.arg)
    n_def = len(a.defaults)
    required = params[:len(params) - n_def] if n_def else params
    missing = [p for p in required if p not in bound]
    missing += [x.arg for x, d in zip(a.kwonlyargs, a.kw_defaults) if d is None and x.arg not in bound]
    if missing:
        return f"missing required argument(s) {missing}"
    return None


def _arity(run, prog):
    sites = 0
    for m in prog.modules.values():
        if m.name.startswith("ixai.visualization"):
            continue
        for cls_node, fn_node in _functions(m.tree):
            cls = m.classes.get(cls_node.name) if cls_node is not None else None
            for call in [n for n in ast.walk(fn_node) if isinstance(n, ast.Call)]:
                target, skip = _resolve_call(prog, m, cls, fn_node, call)
                if target is None:
                    continue
                sites += 1
                run.analysed["call_sites"] += 1
                why = _bind(call, target, skip)
                fq = f"{cls.name + '.' if cls else ''}{fn_node.name}"
                inst = f"{fq}:{ast.unparse(call.func)}"
                if why:
                    run.fail("ARITY", inst, f"{m.path}:{call.lineno}", fq, f"{ast.unparse(call)[:100]}: {why}",
                             f"call `{ast.unparse(call)[:120]}` does not bind to `{target.name}`: {why}")
                else:
                    run.ok("ARITY", inst, "")
    run.need(sites >= 20 or run.findings, f"only {sites} intra-package call sites resolved (expected >= 20)")
    run.notes["arity_call_sites"] = sites


def _functions(tree):
    for n in tree.body:
        if isinstance(n, ast.FunctionDef):
            yield None, n
        elif isinstance(n, ast.ClassDef):
            for b in n.body:
                if isinstance(b, ast.FunctionDef):
                    yield n, b


def _resolve_call(prog, m, cls, fn_node, call):
    f = call.func
    if isinstance(f, ast.Name):
        r = prog.resolve_name(m, f.id)
        if r and r[0] == "func":
            return r[1][1], False
        if r and r[0] == "class":
            c, init = prog.find_method(r[1], "__init__")
            if init is not None:
                return init, True
        return None, False
    if isinstance(f, ast.Attribute):
        if isinstance(f.value, ast.Name) and f.value.id == "self" and cls is not None:
            c, meth = prog.find_method(cls, f.attr)
            if meth is not None and not any(ast.unparse(d) == "property" for d in meth.decorator_list):
                static = any(ast.unparse(d) == "staticmethod" for d in meth.decorator_list)
                return meth, not static
        if isinstance(f.value, ast.Call) and isinstance(f.value.func, ast.Name) and f.value.func.id == "super" and cls is not None:
            owner = cls
            if f.value.args:
                owner = prog.resolve_class(m, f.value.args[0]) or cls
            c, meth = prog.find_method(cls, f.attr, after=owner)
            if meth is not None:
                return meth, True
        d = prog.dotted_of(m, f)
        if d:
            r = prog.resolve_dotted(d)
            if r[0] == "func":
                return r[1][1], False
            if r[0] == "class":
                c, init = prog.find_method(r[1], "__init__")
                if init is not None:
                    return init, True
    return None, False


# ------------------------------------------------------------------------------------------------
def check(run):
    _check_own(run)
    # COPY: a copied explainer keeps its trackers, storage, imputer and counters
    from .copylib import copy_protocol
    prog = run.prog
    for cls in explainer_classes(prog):
        if cls is not None:
            copy_protocol(run, prog, cls)


def _names_truth(run, prog):
    """NAMES: feature names are str, int or float in any mixture -- 0, 0.0 and '' are legal names.  A constructor chain
    that asks for the truth value of the names (`all(names)`, `any(names)`, `if not name`, `filter(None, names)`) treats
    them as missing."""
    n = 0
    for cls in explainer_classes(prog):
        try:
            s = prog.summarise(cls, "__init__")
        except ir.Unsupported:
            continue
        _, fn = prog.find_method(cls, "__init__")
        names = {("param", a.arg) for a in fn.args.args + fn.args.kwonlyargs if "feature" in a.arg and "name" in a.arg}
        if not names:
            continue
        n += 1
        bad = None
        for ev, ctx in walk(s.events, structural=True):
            conds = list(ctx.guards) + ([ev.cond] if isinstance(ev, ir.If) else [])
            for c in conds:
                for t in ir.subterms(c):
                    if t[0] == "fn" and t[1] in ("all", "any") and t[2] and (t[2][0] in names or any(
                            x in names for x in ir.subterms(t[2][0]) if t[2][0][0] in ("new", "fn") and t[2][0][:2] != ("fn", "map"))):
                        bad = (t, ev)
        run.check(bad is None, "NAMES", f"{cls.name}.names-truth", f"{s.path}:{getattr(bad[1], 'line', s.fn.lineno) if bad else s.fn.lineno}",
                  f"{cls.name}.__init__", f"truth of the names: {ir.show_nl(bad[0])[:60] if bad else 'not asked'}",
                  f"the constructor asks for the truth value of the feature names ({ir.show_nl(bad[0])[:80] if bad else ''}): the "
                  f"legal names 0, 0.0 and '' count as false, so explainers for such names are rejected / mis-handled",
                  "the names are only compared / counted, never truth-tested")


def _check_own(run):
    prog = run.prog
    _null(run, prog)
    _arity(run, prog)
    classes = explainer_classes(prog)
    run.need(len(classes) >= 4, f"only {len(classes)} explainers discovered")
    # any callable loss is accepted by the constructors (they all go through validate_loss_function)
    from .c06 import depends_on
    _names_truth(run, prog)
    depends_on(run, "C13", {"AGREE"}, only=lambda rule, inst: inst.startswith("dispatch"))
    depends_on(run, "C06", {"MERGE", "VALUE", "COUNT"},
               only=lambda rule, inst: rule != "MERGE" or inst.endswith("keys-as-keywords"))
    depends_on(run, "C05", {"TELESCOPE", "AVERAGE"}, only=lambda rule, inst: "accumulate" in inst or "acc-init" in inst or inst.endswith(".result"))   # any mixture of name types reaches the default imputer
    depends_on(run, "C14", {"WIRING", "RIVER"})     # every evaluation the explainer asks for reaches the model (no answer kept from an earlier call)
    n_loss = 0
    for cls in classes:
        defaults_resolution(run, prog, cls, "DEFAULTS", cls.name)
        ctor_wiring(run, prog, cls, "CTOR")
        roles, fields = role_fields(prog, cls)
        lf = one(fields, "LOSS", cls)
        imf, sf, mf = one(fields, "IMPUTER", cls), one(fields, "STORAGE", cls), one(fields, "MODEL", cls)
        for method in ("explain_one", "explain_many", "explain_many_original"):
            owner, fn = prog.find_method(cls, method)
            if fn is None or not defines(prog, cls, method):
                continue
            s = prog.summarise(cls, method)
            fq = f"{cls.name}.{method}"
            run.analysed_fn(fq)
            # LOSSCALL
            for ev, ctx in walk(s.events):
                if ctx.inl and any(i.cls is not None and i.cls not in prog.mro(cls) for i in ctx.inl):
                    continue            # code of another class; helpers, hooks and wrappers of the class itself count
                if is_call_to(ev, lf) and ev.method is None:
                    n_loss += 1
                    good = len(ev.args) == 2 and not ev.kwargs
                    run.check(good, "LOSSCALL", f"{fq}:{ev.line}", f"{s.path}:{ev.line}", fq,
                              f"loss call {run.stmt_text(s.path, ev.line)[:100]}",
                              "the loss must be called as loss(y_true, y_pred) with two positional arguments (the documented "
                              f"signature); found {len(ev.args)} positional and keywords {[k for k, _ in ev.kwargs]}", "")
            _names(run, prog, s, fq)
            if method == "explain_one":
                _nomut_and_return(run, prog, cls, s, fq, fn)
    run.need(n_loss >= 9 or run.findings, f"only {n_loss} loss call sites found (confirmed minimum 9)")
    # the constructors: the names (and the callables) the user hands in are taken as they are
    for cls in classes:
        owner, ifn = prog.find_method(cls, "__init__")
        if ifn is None:
            continue
        si = prog.summarise(cls, "__init__")
        pn = [a.arg for a in ifn.args.args + ifn.args.kwonlyargs]
        names_params = [("param", p) for p in pn if "feature_names" in p or p == "feature_names"]
        for np_ in names_params:
            _names(run, prog, si, f"{cls.name}.__init__", subset=np_)
        _callable_attrs(run, prog, cls, si, ifn)
    for cls in imputer_classes(prog):
        s = prog.summarise(cls, "impute")
        _names(run, prog, s, f"{cls.name}.impute", subset=impute_params(prog, cls)[0])
    for name in ("IncrementalPFI", "IncrementalSage"):
        cls = prog.find_class(name)
        run.need(cls is not None, f"anchor class {name} vanished")
        _budget_and_storage(run, prog, cls)


def _names(run, prog, s, fq, subset=None):
    """No coercing primitive / ordering applied to feature names or subsets."""
    targets = {FEATURE_NAMES}
    if subset is not None:
        targets.add(subset)

    def is_names(t):
        if t in targets:
            return True
        if t[0] == "new" and t[2] in ("set", "list", "tuple") and t[3] and t[3][0] in targets:
            return True
        return False
    bad = []
    terms = set()
    for ev, ctx in walk(s.events, structural=True):
        for part in ev:
            if isinstance(part, tuple):
                for t in ir.subterms(part):
                    terms.add((t, getattr(ev, "line", 0)))
    for t in ir.subterms(s.ret):
        terms.add((t, s.fn.lineno))
    seen = set()
    for t, line in terms:
        key = ir.strip_sites(t)
        if t[0] == "fn" and t[1] in ("sorted", "min", "max") and t[2] and is_names(t[2][0]) and ("ord", key) not in seen:
            seen.add(("ord", key))
            bad.append((line, f"{t[1]}() over feature names",
                        f"{t[1]}() compares feature names with each other: mixed str/int/float names raise TypeError"))
        if t[0] == "fn" and t[1] == "asarray" and t[2] and is_names(t[2][0]) and ("arr", key) not in seen:
            seen.add(("arr", key))
            bad.append((line, "feature names converted to a NumPy array", "np.array(names) coerces mixed names to one dtype"))
        if t[0] == "res" and isinstance(t[2], str) and t[2].startswith("numpy.") and not t[2].startswith("numpy.random.") and \
                any(is_names(a) for a in t[3]) and ("np", key) not in seen:
            seen.add(("np", key))
            bad.append((line, f"{t[2]}(feature names)",
                        f"{t[2]} turns the names into one NumPy array: names of mixed types are coerced to one dtype "
                        f"([1, '1', 2.5] become three strings, two of them equal), so legal name lists are misjudged or "
                        f"come back as other objects"))
        if is_draw(t) and t[2] in ("numpy.random.permutation", "numpy.random.choice", "numpy.random.shuffle") and t[3] and \
                is_names(t[3][0]) and ("draw", key) not in seen:
            seen.add(("draw", key))
            bad.append((line, f"{t[2]}(feature names)",
                        f"{t[2]} applied to the names coerces them to one NumPy dtype: ['a', 1] becomes ['a', '1'] "
                        f"(KeyError) and int names come back as np.int64"))
        if t[0] == "cmp" and t[1] in ORDER_OPS and any(x[0] == "elem" for x in (t[2], t[3])) and False:
            pass
    for line, construct, msg in bad:
        run.fail("NAMES", fq, f"{s.path}:{line}", fq, construct, msg)
    if not bad:
        run.ok("NAMES", fq, "no coercing primitive and no ordering on feature names / subsets")


FUNCTION_ONLY_ATTRS = ("__name__", "__qualname__", "__code__", "__defaults__", "__kwdefaults__", "__closure__",
                       "__globals__", "__annotations__", "__wrapped__", "__self__", "__func__", "__module__")


def _callable_attrs(run, prog, cls, si, ifn):
    """The loss / model handed in is any callable with the documented signature: attributes that only plain functions
    have (`__name__`, `__code__`, ...) may not be read from it without a fallback -- functools.partial objects and
    instances with __call__ do not have them."""
    callables = {("param", a.arg) for a in ifn.args.args + ifn.args.kwonlyargs
                 if any(w in a.arg for w in ("loss", "model", "function"))}
    bad = None
    for ev, ctx in walk(si.events, structural=True):
        for part in ev:
            if isinstance(part, tuple):
                for t in ir.subterms(part):
                    if t[0] == "attr" and t[1] in callables and t[2] in FUNCTION_ONLY_ATTRS:
                        bad = bad or (t, getattr(ev, "line", si.fn.lineno))
    for v in si.fields.values():
        for t in ir.subterms(v):
            if t[0] == "attr" and t[1] in callables and t[2] in FUNCTION_ONLY_ATTRS:
                bad = bad or (t, si.fn.lineno)
    fq = f"{cls.name}.__init__"
    if bad:
        t, line = bad
        run.fail("ARITY", f"{fq}:callable", f"{si.path}:{line}", fq, f"{t[1][1]}.{t[2]}",
                 f"the constructor reads `{t[2]}` from the {t[1][1]} it is handed: only plain functions have it -- a "
                 f"functools.partial or an object with __call__ (both legal, same call signature) makes the constructor "
                 f"raise AttributeError")
    else:
        run.ok("ARITY", f"{fq}:callable", "no function-only attribute is read from the callables handed in")


def _nomut_and_return(run, prog, cls, s, fq, fn):
    names = [a.arg for a in fn.args.args][1:]
    x, y = ("param", names[0]), ("param", names[1])
    hits = protected_mutations(s.events, {x, y, FEATURE_NAMES})
    for ev, ctx in walk(s.events):
        if isinstance(ev, ir.Draw) and ev.prim in ("random.shuffle", "numpy.random.shuffle") and ev.args and \
                ev.args[0] in (x, y, FEATURE_NAMES):
            hits.append((ev, ctx, ev.args[0]))
        if isinstance(ev, ir.Store) and ev.field == "feature_names":
            hits.append((ev, ctx, FEATURE_NAMES))
    for ev, ctx, alt in hits:
        what = {x: "the instance x_i", y: "the target y_i"}.get(alt, "the feature-name list")
        run.fail("NOMUT", fq, f"{s.path}:{ev.line}", fq, f"mutates {what}: {run.stmt_text(s.path, ev.line)[:100]}",
                 f"explain_one modifies {what} in place ({run.stmt_text(s.path, ev.line)[:120]})")
    if not hits:
        run.ok("NOMUT", fq, "x_i, y_i and feature_names are only read")
    iv = prog.summarise(cls, "importance_values").ret if prog.find_method(cls, "importance_values")[1] is not None \
        else ("field0", "importance_values")
    rets = [(ev, ctx) for ev, ctx in walk(s.events) if isinstance(ev, ir.Return) and not ctx.inl]
    ok = bool(rets)
    for ev, ctx in rets:
        v = ev.value
        stored = s.fields.get("importance_values")
        stored_alts = strip_gates(stored) if stored is not None else []
        if not (ir.strip_sites(v) == ir.strip_sites(iv) or v == ("field0", "importance_values") or
                all(a in stored_alts or a == ("field0", "importance_values") for a in strip_gates(v))):
            ok = False
            run.fail("RETURN", fq, f"{s.path}:{ev.line}", fq, f"returns {ir.show_nl(v)[:100]}",
                     f"explain_one must return the importance_values property; it returns {ir.show_nl(v)[:160]}")
    if ok:
        run.ok("RETURN", fq, "returns importance_values")


def _budget_and_storage(run, prog, cls):
    inc = Inc(run, prog, cls)
    s, fq = inc.s, inc.fq
    E = check_guard_and_counter(inc, "BUDGET", cls.name)
    direct = [(ev, ctx) for ev, ctx in walk(s.events) if is_call_to(ev, inc.mf) and ev.method is None]
    imps = [(ev, ctx) for ev, ctx in walk(s.events) if is_call_to(ev, inc.imf, "impute")]
    ok = len(direct) == 1 and not direct[0][1].loops and len(imps) == 1 and len(imps[0][1].loops) == 1
    why = ""
    if len(direct) != 1 or (direct and direct[0][1].loops):
        why = f"{len(direct)} direct model call site(s)" + (" inside a loop" if direct and direct[0][1].loops else "")
    elif len(imps) != 1:
        why = f"{len(imps)} imputer call sites"
    elif not ok:
        why = "the imputer call is not inside exactly one per-feature loop"
    if ok:
        lp = imps[0][1].loops[0]
        from .drawlib import uniform_permutation
        it = lp.iter
        if it[0] == "fn" and it[1] == "enumerate" and it[2]:
            it = it[2][0]               # numbering the steps does not change how many there are
        it_ok = it == FEATURE_NAMES or uniform_permutation(it, FEATURE_NAMES)[0] in (True, "coerce")
        if not it_ok:
            ok, why = False, f"the per-feature loop runs over {ir.show_nl(lp.iter)[:100]}, not over the d feature names"
        fs, xi, ns = impute_args(imps[0][0])
        if ns != inc.N:
            ok, why = False, f"n_samples is {ir.show_nl(ns)[:100] if ns else None}, not the override / configured n_inner_samples"
    run.check(ok, "BUDGET", f"{cls.name}.model-calls", inc.where(s.fn.lineno), fq, f"evaluation structure: {why or '1 + d*n'}",
              f"one explain_one call must evaluate the model once directly and call the imputer once per feature with "
              f"n inner samples (1 + d*n evaluations): {why}", "#model = 1 + d * n on the explain path, 0 on the first call")
    sticky = [ev for ev, _ in walk(s.events) if isinstance(ev, ir.Store) and ev.field == "n_inner_samples"]
    run.check(not sticky, "BUDGET", f"{cls.name}.n-override", inc.where(sticky[0].line if sticky else s.fn.lineno), fq,
              "explain_one overwrites self.n_inner_samples",
              "a per-call n_inner_samples override is written to the configured attribute: later calls without an override "
              "evaluate the model 1 + d * (stale n) times", "per-call n is not written back")
    # default imputer: MarginalImputer on the explainer's own model, one model call per inner sample
    init = prog.summarise(cls, "__init__")
    t = init.fields.get(inc.imf)
    dflt = [a for a in ir.subterms(t) if a[0] == "new" and a[2].endswith("MarginalImputer")] if t else []
    good = False
    if dflt:
        pos, kw = new_items(dflt[0])
        m = kw.get("model_function", pos[0] if pos else None)
        good = m == init.fields.get(inc.mf)
    mi = prog.find_class("MarginalImputer")
    one_call = False
    if mi is not None:
        ms = prog.summarise(mi, "impute")
        mcs = [(ev, ctx) for ev, ctx in walk(ms.events) if is_call_to(ev, model_field(prog, mi))]
        n = impute_params(prog, mi)[2]
        one_call = len(mcs) == 1 and len(mcs[0][1].loops) == 1 and mcs[0][1].loops[0].iter == ("fn", "range", (n,))
    run.check(good and one_call, "BUDGET", f"{cls.name}.default-imputer", f"{init.path}:{init.fn.lineno}", f"{cls.name}.__init__",
              f"default imputer {ir.show_nl(dflt[0])[:100] if dflt else None}",
              "the default imputer must be a MarginalImputer on the explainer's own (validated) model function that evaluates "
              "the model exactly once per inner sample", "MarginalImputer(self._model_function, ...) with one evaluation per sample")
    # STORAGE typestate
    ps = paths(s.events, unroll=1)
    run.analysed["paths"] += len(ps)
    bad = None
    flag = inc.flag
    for p in ps:
        ups = [e for e in p.events if is_call_to(e, inc.sf, "update")]
        from .boolalg import holds, excluded
        on = holds(p.guards, flag)
        off = excluded(p.guards, flag)
        if on and (len(ups) != 1 or _xy(ups[0]) != (inc.x, inc.y)):
            bad = f"with update_storage set the storage is updated {len(ups)} times" + \
                  ("" if len(ups) != 1 else " with other arguments than (x_i, y_i)")
        if off and ups:
            bad = "the storage is updated although update_storage is False"
        if not on and not off and ups:
            bad = "a storage update does not depend on the update_storage flag alone: " + \
                  " & ".join(ir.show_nl(l) for l in p.guards)
        if ups:
            idx = {id(e): i for i, e in enumerate(p.events)}
            late = [e for e in p.events if is_call_to(e, inc.imf, "impute") and idx[id(e)] > idx[id(ups[0])]]
            if late:
                bad = "the storage is updated before the explanation was computed (the observation becomes part of its own background)"
    run.check(bad is None, "STORAGE", f"{cls.name}.update", inc.where(s.fn.lineno), fq, bad or "storage discipline",
              f"the storage must be updated exactly once with (x_i, y_i) after the explanation iff update_storage: {bad}",
              f"{len(ps)} paths: one storage.update(x_i, y_i) iff update_storage, after every imputer call")


def _xy(ev):
    kw = dict(ev.kwargs)
    a = list(ev.args)
    return kw.get("x", a[0] if a else None), kw.get("y", a[1] if len(a) > 1 else None)


_B = "ixai/explainer/base.py"
_I = "ixai/explainer/sage/incremental.py"
_P = "ixai/explainer/pfi.py"
_BA = "ixai/explainer/sage/batch.py"
_PERM = "permutation_chain = [self.feature_names[i]\n                                 for i in np.random.permutation(len(self.feature_names))]"
WITNESSES = [
    ("range check on the raw Optional alpha (pre-repair)", [(_B, "assert 0. < self._smoothing_alpha <= 1.", "assert 0. < smoothing_alpha <= 1.")]),
    ("keyword loss call (pre-repair)", [(_BA, "feature_loss = self._loss_function(y_i, y)", "feature_loss = self._loss_function(y_true=y_i, y_prediction=y)")]),
    ("names through np.random.permutation (pre-repair)", [(_I, _PERM, "permutation_chain = np.random.permutation(self.feature_names)")]),
    ("extra model call in the loop", [(_P, "                feature_subset = [feature]\n", "                feature_subset = [feature]\n                _ = self._model_function(x_i)\n")]),
    ("seen_samples += 2", [(_I, "        self.seen_samples += 1\n", "        self.seen_samples += 2\n")]),
    ("storage update before imputation", [(_P, "            original_prediction = self._model_function(x_i)\n", "            if update_storage:\n                self._storage.update(x_i, y_i)\n            original_prediction = self._model_function(x_i)\n"),
                                          (_P, "        if update_storage:\n            self._storage.update(x_i, y_i)\n        if explain:", "        if explain:")]),
    ("storage update ignores the flag", [(_I, "        if update_storage:\n            self._storage.update(x_i, y_i)\n", "        self._storage.update(x_i, y_i)\n")]),
    ("storage update when empty", [(_I, "        if update_storage:\n            self._storage.update(x_i, y_i)\n", "        if update_storage or len(self._storage) == 0:\n            self._storage.update(x_i, y_i)\n")]),
    ("returning the raw contributions", [(_P, "        self.seen_samples += 1\n        return self.importance_values\n", "        self.seen_samples += 1\n        return pfi if explain else self.importance_values\n")]),
    ("default storage built with an unknown keyword", [(_B, "GeometricReservoirStorage(store_targets=False, size=100)", "GeometricReservoirStorage(store_targets=False, length=100)")]),
    ("default imputer misses an argument", [(_B, "MarginalImputer(self._model_function, 'joint', self._storage)", "MarginalImputer(self._model_function, self._storage)")]),
    ("sorted subset in the imputer", [("ixai/imputer/marginal_imputer.py", "for feature_name in feature_subset}", "for feature_name in sorted(feature_subset)}")]),
    ("feature names shuffled in place", [(_I, _PERM, "random.shuffle(self.feature_names)\n            permutation_chain = list(self.feature_names)"),
                                         (_I, "import copy\n", "import copy\nimport random\n")]),
    ("instance annotated in place", [(_P, "            original_prediction = self._model_function(x_i)\n", "            x_i['_seen'] = self.seen_samples\n            original_prediction = self._model_function(x_i)\n")]),
    ("default imputer on the raw model", [(_B, "MarginalImputer(self._model_function, 'joint', self._storage)", "MarginalImputer(model_function, 'joint', self._storage)")]),
    ("Optional storage dereferenced", [("ixai/explainer/sage/interval.py", "        if storage is None:\n            storage = IntervalStorage(store_targets=True, size=storage_length)\n", "        storage_length = max(storage_length, len(storage))\n        if storage is None:\n            storage = IntervalStorage(store_targets=True, size=storage_length)\n")]),
]
SILENT = [
    ("None default resolved by `or`-free ternary", [(_B, "self._smoothing_alpha = 0.001 if smoothing_alpha is None else smoothing_alpha", "self._smoothing_alpha = smoothing_alpha if smoothing_alpha is not None else 0.001")]),
    ("keyword constructor call", [(_B, "MarginalImputer(self._model_function, 'joint', self._storage)", "MarginalImputer(model_function=self._model_function, sampling_strategy='joint', storage_object=self._storage)")]),
]
