"""Minimal in-memory unified-diff applier (for replaying the committed seeded / refactoring corpora on the
current sources without touching the file system). Returns None when a hunk does not apply."""
import re

_HUNK = re.compile(r"^@@ -(\d+)(?:,(\d+))? \+(\d+)(?:,(\d+))? @@")


def parse(text):
    """{path: [hunk]} with hunk = (old_lines, new_lines)."""
    files, cur, hunk = {}, None, None
    for line in text.split("\n"):
        if line.startswith("diff --git"):
            cur, hunk = None, None
        elif line.startswith("+++ "):
            p = line[4:].strip()
            cur = p[2:] if p.startswith("b/") else p
            files[cur] = []
            hunk = None
        elif line.startswith("--- "):
            continue
        elif _HUNK.match(line) and cur is not None:
            hunk = ([], [])
            files[cur].append(hunk)
        elif hunk is not None and cur is not None:
            if line.startswith("+"):
                hunk[1].append(line[1:])
            elif line.startswith("-"):
                hunk[0].append(line[1:])
            elif line.startswith(" "):
                hunk[0].append(line[1:])
                hunk[1].append(line[1:])
            elif line.startswith("\\"):
                continue
            elif line == "":
                # blank context line whose leading space was stripped
                hunk[0].append("")
                hunk[1].append("")
    return files


def apply(sources, diff_text):
    """New {path: text} for the files the diff touches, or None if it does not apply."""
    out = {}
    for path, hunks in parse(diff_text).items():
        text = sources.get(path)
        if text is None:
            # a file the diff creates: nothing but added lines (the blank produced by the final split aside)
            if all(not [l for l in h[0] if l != ""] for h in hunks):
                new_lines = [l for h in hunks for l in h[1]]
                while new_lines and new_lines[-1] == "":
                    new_lines.pop()
                out[path] = "\n".join(new_lines) + "\n"
                continue
            return None
        lines = text.split("\n")
        for old, new in hunks:
            while old and new and old[-1] == "" and new[-1] == "" and len(old) > 1:
                # trailing blank produced by the final split
                old, new = old[:-1], new[:-1]
            n = len(old)
            pos = next((i for i in range(len(lines) - n + 1) if lines[i:i + n] == old), None)
            if pos is None:
                return None
            lines[pos:pos + n] = new
        out[path] = "\n".join(lines)
    return out
