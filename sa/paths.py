"""Walkers and path enumeration over the effect tree (DESIGN.md 3.3 'Paths')."""
import itertools
from collections import namedtuple

from . import ir

Ctx = namedtuple("Ctx", "loops guards tries inl withs")
EMPTY = Ctx((), (), (), (), ())
Raised = namedtuple("Raised", "event line")          # pseudo event: `event` raised inside a try body


def walk(events, ctx=EMPTY, structural=False):
    """Yield (event, ctx) for every leaf event (and structural ones if asked), in program order.
    ctx.loops: enclosing Loop events; ctx.guards: branch literals; ctx.tries: (Try, 'body'|handler)."""
    for ev in events:
        if isinstance(ev, ir.If):
            if structural:
                yield ev, ctx
            yield from walk(ev.then, ctx._replace(guards=ctx.guards + (ev.cond,)), structural)
            yield from walk(ev.orelse, ctx._replace(guards=ctx.guards + (ir.negate(ev.cond),)), structural)
        elif isinstance(ev, ir.Loop):
            if structural:
                yield ev, ctx
            yield from walk(ev.body, ctx._replace(loops=ctx.loops + (ev,)), structural)
        elif isinstance(ev, ir.Inlined):
            if structural:
                yield ev, ctx
            yield from walk(ev.body, ctx._replace(inl=ctx.inl + (ev,)), structural)
        elif isinstance(ev, ir.With):
            if structural:
                yield ev, ctx
            yield from walk(ev.body, ctx._replace(withs=ctx.withs + (ev,)), structural)
        elif isinstance(ev, ir.Try):
            if structural:
                yield ev, ctx
            yield from walk(ev.body, ctx._replace(tries=ctx.tries + ((ev, "body"),)), structural)
            for h in ev.handlers:
                yield from walk(h.body, ctx._replace(tries=ctx.tries + ((ev, h),)), structural)
        else:
            yield ev, ctx


def leaves(events):
    return [ev for ev, _ in walk(events)]


def find_loops(events):
    return [(ev, ctx) for ev, ctx in walk(events, structural=True) if isinstance(ev, ir.Loop)]


class Path:
    __slots__ = ("guards", "events", "exit")

    def __init__(self, guards=(), events=(), exit=None):
        self.guards, self.events, self.exit = tuple(guards), tuple(events), exit

    def extend(self, guards, events, exit):
        return Path(self.guards + tuple(guards), self.events + tuple(events), exit)

    def feasible(self):
        g = set(self.guards)
        return not any(ir.negate(x) in g for x in g)

    def __repr__(self):
        return f"<Path {len(self.events)} events, exit={self.exit}>"


def paths(events, unroll=2, exc=False, limit=20000):
    """Expand an effect tree into feasible paths. Each path: guard literals + leaf events in
    order; `exit` in {None (falls through), 'return', 'raise', 'exc'}. Loops are unrolled
    0..unroll times. With exc=True a try body additionally contributes, for every leaf event in
    it, the path on which that event raises into each handler."""
    out = [Path()]
    for ev in events:
        alts = _alts(ev, unroll, exc, limit)
        new = []
        for p in out:
            if p.exit is not None:
                new.append(p)
                continue
            for a in alts:
                q = p.extend(a.guards, a.events, a.exit)
                if q.feasible():
                    new.append(q)
        out = new
        if len(out) > limit:
            raise ir.Unsupported(f"path explosion (> {limit} paths)")
    return out


def _alts(ev, unroll, exc, limit):
    if isinstance(ev, ir.If):
        a = [Path((ev.cond,)).extend(p.guards, p.events, p.exit) for p in paths(ev.then, unroll, exc, limit)]
        b = [Path((ir.negate(ev.cond),)).extend(p.guards, p.events, p.exit)
             for p in paths(ev.orelse, unroll, exc, limit)]
        return [p for p in a + b if p.feasible()]
    if isinstance(ev, ir.Loop):
        body = paths(ev.body, unroll, exc, limit)
        alts = [Path()]
        for n in range(1, unroll + 1):
            for combo in itertools.product(body, repeat=n):
                p = Path()
                broke = False
                for part in combo:
                    if p.exit is None and not broke:
                        p = p.extend(part.guards, part.events, part.exit)
                        if p.exit == "continue":
                            p = Path(p.guards, p.events, None)
                        elif p.exit == "break":
                            p = Path(p.guards, p.events, None)
                            broke = True
                alts.append(p)
                if len(alts) > limit:
                    raise ir.Unsupported(f"path explosion in loop at line {ev.line}")
        return alts
    if isinstance(ev, ir.Inlined):
        res = []
        for p in paths(ev.body, unroll, exc, limit):
            # a return of the callee ends the callee, not the caller
            res.append(Path(p.guards, p.events, None if p.exit == "return" else p.exit))
        return res
    if isinstance(ev, ir.With):
        return paths(ev.body, unroll, exc, limit)
    if isinstance(ev, ir.Try):
        body = paths(ev.body, unroll, exc, limit)
        alts = list(body)
        if exc:
            seen = set()
            for bp in body:
                for i, e in enumerate(bp.events):
                    key = tuple(id(x) for x in bp.events[:i + 1])
                    if key in seen:
                        continue
                    seen.add(key)
                    for h in ev.handlers:
                        for hp in paths(h.body, unroll, exc, limit):
                            alts.append(Path(bp.guards, bp.events[:i] + (Raised(e, getattr(e, "line", 0)),), None)
                                        .extend((("handler", h.exc),) + hp.guards, hp.events, hp.exit))
        return alts
    if isinstance(ev, ir.Return):
        return [Path((), (ev,), "return")]
    if isinstance(ev, ir.Raise):
        return [Path((), (ev,), "raise")]
    if isinstance(ev, ir.Jump):
        return [Path((), (ev,), ev.kind)]
    return [Path((), (ev,), None)]


def root(t):
    """Root object of an access path: sub/attr/tget chains are followed to the base term."""
    while isinstance(t, tuple) and t and t[0] in ("sub", "attr", "tget"):
        t = t[1]
    return t


def strip_gates(t):
    """All possible ungated values of a term (follows gate arms)."""
    if isinstance(t, tuple) and t and t[0] == "gate":
        return strip_gates(t[2]) + strip_gates(t[3])
    return [t]
