"""Walkers and path enumeration over the effect tree (DESIGN.md 3.3 'Paths')."""
import itertools
from collections import namedtuple

from . import ir

Ctx = namedtuple("Ctx", "loops guards tries inl withs")
EMPTY = Ctx((), (), (), (), ())
Raised = namedtuple("Raised", "event line")          # pseudo event: `event` raised inside a try body


def conjuncts(cond):
    """The literals a condition asserts when it holds: `a and b` asserts a, b; `not (a or b)` asserts
    not a, not b; anything else asserts itself."""
    if isinstance(cond, tuple) and cond:
        if cond[0] == "and":
            return tuple(x for c in cond[1] for x in conjuncts(c))
        if cond[0] == "not" and isinstance(cond[1], tuple) and cond[1] and cond[1][0] == "or":
            return tuple(x for c in cond[1][1] for x in conjuncts(ir.negate(c)))
    return (cond,)


def walk(events, ctx=EMPTY, structural=False):
    """Yield (event, ctx) for every leaf event (and structural ones if asked), in program order.
    ctx.loops: enclosing Loop events; ctx.guards: branch literals; ctx.tries: (Try, 'body'|handler)."""
    for ev in events:
        if isinstance(ev, ir.If):
            if structural:
                yield ev, ctx
            yield from walk(ev.then, ctx._replace(guards=ctx.guards + conjuncts(ev.cond)), structural)
            yield from walk(ev.orelse, ctx._replace(guards=ctx.guards + conjuncts(ir.negate(ev.cond))), structural)
        elif isinstance(ev, ir.Loop):
            if structural:
                yield ev, ctx
            yield from walk(ev.body, ctx._replace(loops=ctx.loops + (ev,)), structural)
        elif isinstance(ev, ir.Inlined):
            if structural:
                yield ev, ctx
            yield from walk(ev.body, ctx._replace(inl=ctx.inl + (ev,)), structural)
        elif isinstance(ev, ir.With):
            if structural:
                yield ev, ctx
            yield from walk(ev.body, ctx._replace(withs=ctx.withs + (ev,)), structural)
        elif isinstance(ev, ir.Try):
            if structural:
                yield ev, ctx
            yield from walk(ev.body, ctx._replace(tries=ctx.tries + ((ev, "body"),)), structural)
            for h in ev.handlers:
                hctx = ctx._replace(tries=ctx.tries + ((ev, h),))
                if getattr(h, "probe", None) is not None:
                    hctx = hctx._replace(guards=hctx.guards + (("cmp", "not in", h.probe[1], h.probe[0]),))
                yield from walk(h.body, hctx, structural)
        else:
            yield ev, ctx


def leaves(events):
    return [ev for ev, _ in walk(events)]


def find_loops(events):
    return [(ev, ctx) for ev, ctx in walk(events, structural=True) if isinstance(ev, ir.Loop)]


class Path:
    __slots__ = ("guards", "events", "exit", "gpos")

    def __init__(self, guards=(), events=(), exit=None, gpos=None):
        self.guards, self.events, self.exit = tuple(guards), tuple(events), exit
        # gpos[i]: number of events that precede the evaluation of guards[i] on this path
        self.gpos = tuple(gpos) if gpos is not None else tuple(0 for _ in self.guards)

    def extend(self, guards, events, exit, gpos=None):
        n = len(self.events)
        gp = tuple(gpos) if gpos is not None else tuple(0 for _ in guards)
        return Path(self.guards + tuple(guards), self.events + tuple(events), exit,
                    self.gpos + tuple((n + p) if p is not None else None for p in gp))

    def feasible(self):
        """A path is infeasible if it assumes a literal and its negation -- unless an object the literal
        talks about was mutated between the two tests (terms denote values, but `len(self.xs)` after
        `self.xs.append(..)` is a new value of the same term)."""
        seen = {}
        for g, pos in zip(self.guards, self.gpos):
            n = ir.negate(g)
            if n in seen:
                p0 = seen[n]
                # a test of a value computed earlier (pos None) cannot have been invalidated in between
                if p0 is None or pos is None or not _mutated_between(self.events[p0:pos], g):
                    return False
            seen.setdefault(g, pos)
        # compound tests of values computed earlier (`if writer is not None` with writer chosen by two earlier
        # branches): the conjunction with the literals of those branches must be satisfiable
        def compound(g):
            return isinstance(g, tuple) and g and (g[0] in ("and", "or") or
                                                   (g[0] == "not" and isinstance(g[1], tuple) and g[1] and g[1][0] in ("and", "or")))
        comp = [g for g, pos in zip(self.guards, self.gpos) if pos is None and compound(g)]
        if comp:
            from .rules import boolalg
            stable = [g for g in seen if not compound(g) and ir.negate(g) not in seen and
                      not (isinstance(g, tuple) and g and g[0] == "handler")]
            try:
                if not boolalg.satisfiable(("and", tuple(stable) + tuple(comp))):
                    return False
            except ValueError:
                pass
        return True

    def __repr__(self):
        return f"<Path {len(self.events)} events, exit={self.exit}>"


def _mutated_between(events, lit):
    """Does any of the events mutate an object mentioned in the literal?"""
    objs = set(t for t in ir.subterms(lit) if t[0] in ("field0", "new", "param", "res"))
    for ev in events:
        tgt = None
        if isinstance(ev, ir.Call) and ev.method in ir.MUTATORS and ev.recv is not None:
            tgt = ev.recv
        elif isinstance(ev, ir.Mut):
            tgt = ev.recv
        elif isinstance(ev, (ir.SubStore, ir.Del)):
            tgt = ev.cont
        if tgt is not None and root(tgt) in objs:
            return True
    return False


EXTRA_UNROLL = 0     # thorough tier: re-analyse with deeper loop unrolling as a cross-check


def paths(events, unroll=2, exc=False, limit=200000, _top=True):
    """Expand an effect tree into feasible paths. Each path: guard literals + leaf events in
    order; `exit` in {None (falls through), 'return', 'raise', 'exc'}. Loops are unrolled
    0..unroll times. With exc=True a try body additionally contributes, for every leaf event in
    it, the path on which that event raises into each handler."""
    if _top:
        unroll = unroll + EXTRA_UNROLL
    out = [Path()]
    for ev in events:
        alts = _alts(ev, unroll, exc, limit)
        new = []
        for p in out:
            if p.exit is not None:
                new.append(p)
                continue
            for a in alts:
                q = p.extend(a.guards, a.events, a.exit, a.gpos)
                if q.feasible():
                    new.append(q)
        out = new
        if len(out) > limit:
            raise ir.Unsupported(f"path explosion (> {limit} paths)")
    return out


def _alts(ev, unroll, exc, limit):
    if isinstance(ev, ir.If):
        ct, ce = conjuncts(ev.cond), conjuncts(ir.negate(ev.cond))
        gt = tuple((0 if ev.fresh else None) for _ in ct)
        ge = tuple((0 if ev.fresh else None) for _ in ce)
        a = [Path(ct, gpos=gt).extend(p.guards, p.events, p.exit, p.gpos) for p in paths(ev.then, unroll, exc, limit, False)]
        b = [Path(ce, gpos=ge).extend(p.guards, p.events, p.exit, p.gpos)
             for p in paths(ev.orelse, unroll, exc, limit, False)]
        return [p for p in a + b if p.feasible()]
    if isinstance(ev, ir.Loop):
        body = paths(ev.body, unroll, exc, limit, False)
        if ev.comp:
            # a comprehension has no statements after its element expression: one representative
            # iteration carries all its events (ordering inside is the same for every iteration)
            return [Path()] + body if any(b.events for b in body) else [Path()]
        alts = [Path()]
        for n in range(1, unroll + 1):
            for combo in itertools.product(body, repeat=n):
                p = Path()
                broke = False
                for part in combo:
                    if p.exit is None and not broke:
                        p = p.extend(part.guards, part.events, part.exit, part.gpos)
                        if p.exit == "continue":
                            p = Path(p.guards, p.events, None, p.gpos)
                        elif p.exit == "break":
                            p = Path(p.guards, p.events, None, p.gpos)
                            broke = True
                alts.append(p)
                if len(alts) > limit:
                    raise ir.Unsupported(f"path explosion in loop at line {ev.line}")
        return alts
    if isinstance(ev, ir.Inlined):
        res = []
        for p in paths(ev.body, unroll, exc, limit, False):
            # a return of the callee ends the callee, not the caller
            res.append(Path(p.guards, p.events, None if p.exit == "return" else p.exit, p.gpos))
        return res
    if isinstance(ev, ir.With):
        return paths(ev.body, unroll, exc, limit, False)
    if isinstance(ev, ir.Try):
        body = paths(ev.body, unroll, exc, limit, False)
        alts = list(body)
        for h in ev.handlers:
            if getattr(h, "probe", None) is not None:
                # the body only looks a key up: the handler runs exactly when the key is missing
                for hp in paths(h.body, unroll, exc, limit, False):
                    alts.append(Path().extend((("handler", h.exc), ("cmp", "not in", h.probe[1], h.probe[0])) + hp.guards,
                                              hp.events, hp.exit, (0, 0) + tuple(hp.gpos)))
        if exc:
            seen = set()
            unprotected = set()
            if getattr(ev, "else_from", None) is not None:
                unprotected = {id(e) for e, _ in walk(ev.body[ev.else_from:])}
            for bp in body:
                for i, e in enumerate(bp.events):
                    if id(e) in unprotected:
                        break               # the else clause runs only after the body completed; it is not protected
                    if isinstance(e, ir.Jump):
                        continue            # a jump does not raise
                    key = tuple(id(x) for x in bp.events[:i + 1])
                    if key in seen:
                        continue
                    seen.add(key)
                    for h in ev.handlers:
                        for hp in paths(h.body, unroll, exc, limit, False):
                            head = Path(bp.guards, bp.events[:i] + (Raised(e, getattr(e, "line", 0)),), None,
                                        tuple(min(g, i) if g is not None else None for g in bp.gpos))
                            alts.append(head.extend((("handler", h.exc),) + hp.guards, hp.events, hp.exit,
                                                    (0,) + tuple(hp.gpos)))
        return alts
    if isinstance(ev, ir.Return):
        return [Path((), (ev,), "return")]
    if isinstance(ev, ir.Raise):
        return [Path((), (ev,), "raise")]
    if isinstance(ev, ir.Jump):
        return [Path((), (ev,), ev.kind)]
    return [Path((), (ev,), None)]


def root(t):
    """Root object of an access path: sub/attr/tget chains are followed to the base term."""
    while isinstance(t, tuple) and t and t[0] in ("sub", "attr", "tget"):
        t = t[1]
    return t


def strip_gates(t):
    """All possible ungated values of a term (follows gate arms)."""
    if isinstance(t, tuple) and t and t[0] == "gate":
        return strip_gates(t[2]) + strip_gates(t[3])
    return [t]


def order_dataflow(events, classify):
    """Forward may-analysis over the effect tree for the ORDER rule: which 'commit' events may have
    happened when a 'fallible' event is reached?  Loops are iterated to a fixpoint (finite powerset
    domain), so the result covers every number of iterations.  Returns [(commit event, fallible event)]."""
    found = {}
    frames = []          # states at `return` statements of inlined callees (they continue in the caller)

    def join(a, b):
        return b if a is None else (a if b is None else a | b)

    def scan(evs, state):
        # state: frozenset of commit events that may have happened; None = unreachable
        for ev in evs:
            if state is None:
                return None
            if isinstance(ev, ir.If):
                state = join(scan(ev.then, state), scan(ev.orelse, state))
            elif isinstance(ev, ir.Loop):
                cur = state
                for _ in range(64):
                    nxt = join(cur, scan(ev.body, cur))
                    if nxt == cur:
                        break
                    cur = nxt
                state = cur
            elif isinstance(ev, ir.Inlined):
                frames.append([])
                out = scan(ev.body, state)
                for st in frames.pop():
                    out = join(out, st)
                state = out
            elif isinstance(ev, ir.With):
                state = scan(ev.body, state)
            elif isinstance(ev, ir.Try):
                out = scan(ev.body, state)
                mid = join(state, out) | frozenset(e for e, _ in walk(ev.body) if classify(e) == "commit")
                for h in ev.handlers:
                    out = join(out, scan(h.body, mid))
                state = out
            elif isinstance(ev, ir.Return):
                if frames:
                    frames[-1].append(state)
                return None
            elif isinstance(ev, (ir.Raise, ir.Jump)):
                return None
            else:
                k = classify(ev)
                if k == "fallible":
                    for c in state:
                        found.setdefault((id(c), id(ev)), (c, ev))
                elif k == "commit":
                    state = state | frozenset([ev])
        return state

    scan(events, frozenset())
    return list(found.values())
